//! Compile-time Send + Sync obligations for C16 (built with the `sync` feature).
//! Each line is one obligation; the crate compiles iff all are discharged.
use jmespath::functions::{ArgumentType, CustomFunction, Function, Signature};

fn send_sync<T: Send + Sync>() {}
fn send_sync_static<T: Send + Sync + 'static>() {}

pub const OBLIGATIONS: &[&str] = &[
    "Expression<'static>: Send + Sync",
    "Runtime: Send + Sync",
    "Variable: Send + Sync",
    "Rcvar: Send + Sync",
    "Ast: Send + Sync",
    "KeyValuePair: Send + Sync",
    "Comparator: Send + Sync",
    "JmespathError: Send + Sync + 'static",
    "ErrorReason: Send + Sync",
    "RuntimeError: Send + Sync",
    "Box<dyn Function>: Send + Sync",
    "CustomFunction: Send + Sync",
    "Signature: Send + Sync",
    "ArgumentType: Send + Sync",
    "&'static Runtime (DEFAULT_RUNTIME): Send + Sync",
    "Result<Rcvar, JmespathError>: Send",
    "Arc<Expression<'static>> can move into std::thread::spawn",
];

pub fn obligations() {
    send_sync::<jmespath::Expression<'static>>();
    send_sync::<jmespath::Runtime>();
    send_sync::<jmespath::Variable>();
    send_sync::<jmespath::Rcvar>();
    send_sync::<jmespath::ast::Ast>();
    send_sync::<jmespath::ast::KeyValuePair>();
    send_sync::<jmespath::ast::Comparator>();
    send_sync_static::<jmespath::JmespathError>();
    send_sync::<jmespath::ErrorReason>();
    send_sync::<jmespath::RuntimeError>();
    send_sync::<Box<dyn Function>>();
    send_sync::<CustomFunction>();
    send_sync::<Signature>();
    send_sync::<ArgumentType>();
    send_sync::<&'static jmespath::Runtime>();
    send_sync::<Result<jmespath::Rcvar, jmespath::JmespathError>>();
    let e = std::sync::Arc::new(jmespath::compile("a").unwrap());
    let h = std::thread::spawn(move || e.search(()).is_ok());
    let _ = h.join();
    let _: &'static jmespath::Runtime = &jmespath::DEFAULT_RUNTIME;
}
