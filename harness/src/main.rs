pub mod engine;
pub mod enumr;
pub mod gram;
pub mod implx;
pub mod reval;
pub mod rlex;
pub mod rparse;
pub mod checks;
pub mod bind;
pub mod oracle;

use engine::Tier;

fn main() {
    let args: Vec<String> = std::env::args().collect();
    if args.len() < 3 {
        eprintln!("usage: jpv <ID> quick|thorough | jpv <ID> --replay <file> | jpv bind");
        std::process::exit(2);
    }
    implx::silence_panics();
    let id = args[1].as_str();
    if id == "C05-family" {
        std::process::exit(checks::c05::family_child(&args[2], args[3].parse().unwrap()));
    }
    if id == "C17-driver" {
        let tier = if args[2] == "thorough" { Tier::Thorough } else { Tier::Quick };
        std::process::exit(checks::c17::driver(tier, &args[3]));
    }
    if id == "C17-compare" {
        let tier = if args[2] == "thorough" { Tier::Thorough } else { Tier::Quick };
        let files: Vec<(String, String)> = ["base", "sync", "spec", "spec-sync"].iter().map(|c| (c.to_string(), format!("{}/{}.txt", args[3], c))).collect();
        std::process::exit(checks::c17::run(tier, &files));
    }
    #[cfg(all(feature = "sched", jmespath_rs_verif))]
    if id == "C16-scenario" {
        let tier = if args[2] == "thorough" { Tier::Thorough } else { Tier::Quick };
        std::process::exit(checks::c16::scenario_child(tier, &args[3]));
    }
    #[cfg(all(feature = "sched", jmespath_rs_verif))]
    if id == "C16-intercept-child" {
        // jpv C16-intercept-child <scenario> <seq | - | c0,c1,...>
        std::process::exit(checks::c16::intercept_child(&args[2], &args[3]));
    }
    #[cfg(all(feature = "sched", jmespath_rs_verif))]
    if id == "C16-intercept-explore" {
        // jpv C16-intercept-explore <intercept-binary> <bound> <cap>: the intercepted leg alone (diagnosis)
        let bound: usize = args[3].parse().unwrap();
        let cap: u64 = args[4].parse().unwrap();
        let mut bad = 0;
        for s in checks::c16::intercept_scenarios() {
            let t0 = std::time::Instant::now();
            let r = checks::c16::explore_intercepted(&args[2], &s, s.max_bound.map_or(bound, |m| m.min(bound)), cap);
            println!("{}: schedules={} points={} outcomes={} capped={} machinery={:?} wall={:.1}s failure={:?}", r.name, r.processes, r.scheduling_points, r.distinct_outcomes, r.capped, r.machinery, t0.elapsed().as_secs_f64(), r.failure.as_ref().map(|f| (&f.0, engine::trunc(&f.2, 200))));
            if r.failure.is_some() {
                bad = 1;
            }
        }
        std::process::exit(bad);
    }
    #[cfg(all(feature = "sched", jmespath_rs_verif))]
    if id == "C16-first" {
        let ch: Vec<usize> = args[2].split(',').filter_map(|x| x.parse().ok()).collect();
        std::process::exit(checks::c16::first_use_child(ch));
    }
    if id == "C13-first" {
        let h: Vec<usize> = args[2].split(',').filter_map(|x| x.parse().ok()).collect();
        std::process::exit(checks::c13::first_child(&h));
    }
    if id == "probe" {
        // jpv probe <expression> [<document json>]: implementation and reference side by side
        let doc: serde_json::Value = args.get(3).map(|d| serde_json::from_str(d).expect("document json")).unwrap_or(serde_json::Value::Null);
        println!("impl: {}", implx::impl_search(&args[2], &doc).brief());
        match rparse::parse(&args[2]) {
            Ok(p) => println!("ref : {}  tree {}", oracle::ref_brief(&reval::Eval::builtin().search(&p.tree, &doc)), rparse::sexp(&p.tree)),
            Err(e) => println!("ref : not a sentence ({:?})", e),
        }
        match jmespath::parse(&args[2]) {
            Ok(a) => println!("ast : {}", implx::ast_sexp(&a)),
            Err(e) => println!("ast : {:?}", e.reason),
        }
        return;
    }
    if id == "C05-one" {
        let mut st = engine::Stats::default();
        checks::c05::total(&args[2], "one", &mut st);
        std::process::exit(if st.violation_count > 0 { 1 } else { 0 });
    }
    if args[2] == "--replay" {
        let txt = std::fs::read_to_string(&args[3]).expect("read replay file");
        let v: serde_json::Value = serde_json::from_str(&txt).expect("replay json");
        std::process::exit(checks::replay(id, &v));
    }
    let tier = match args[2].as_str() {
        "quick" => Tier::Quick,
        "thorough" => Tier::Thorough,
        _ => {
            eprintln!("tier must be quick or thorough");
            std::process::exit(2)
        }
    };
    std::process::exit(checks::run(id, tier));
}
