//! Comparison of the implementation's search outcome with R-eval's.
use crate::implx::{classify, contains_expref, value_to_var, var_to_value, IClass, Out};
use crate::reval::{deep_eq, Eval, RErr, R, V};
use crate::rparse::Parsed;
use jmespath::{Expression, Rcvar};
use serde_json::Value;

pub fn ref_brief(r: &R<V>) -> String {
    match r {
        Ok(V::J(v)) => format!("value: {}", serde_json::to_string(v).unwrap()),
        Ok(V::X(_)) => "value: <expref>".into(),
        Err(e) => format!("error: {:?} ({})", e.class, e.detail),
    }
}

pub fn unspecified(r: &R<V>) -> bool {
    matches!(r, Err(RErr { detail, .. }) if detail == "UNSPECIFIED")
}

/// Does the implementation's outcome agree with the reference result
/// (values as JSON with numbers by value, errors by class)?
pub fn agrees(r: &R<V>, out: &Out) -> bool {
    match (r, out) {
        (Ok(V::J(v)), Out::Value(w, false)) => deep_eq(v, w),
        (Ok(V::X(_)), Out::Value(_, true)) => true,
        (Err(e), Out::SearchErr(je)) => classify(je) == IClass::Rt(e.class),
        _ => false,
    }
}

pub fn run_impl(expr: &Expression<'_>, doc: &Rcvar) -> Out {
    match crate::implx::guarded(|| match expr.search(doc.clone()) {
        Ok(v) => Out::Value(var_to_value(&v), contains_expref(&v)),
        Err(e) => Out::SearchErr(e),
    }) {
        Ok(o) => o,
        Err(m) => Out::Panic(m),
    }
}

/// Compare on one document; None = agreement (or unspecified).
pub fn compare(p: &Parsed, expr: &Expression<'_>, doc: &Value, doc_rc: &Rcvar) -> Option<(String, String, Out)> {
    let strict = Eval::builtin();
    let r = strict.search(&p.tree, doc);
    if unspecified(&r) {
        return None;
    }
    let out = run_impl(expr, doc_rc);
    if agrees(&r, &out) {
        return None;
    }
    let lenient = Eval::builtin_lenient();
    let r2 = lenient.search(&p.tree, doc);
    if unspecified(&r2) || agrees(&r2, &out) {
        return None;
    }
    Some((ref_brief(&r), out.brief(), out))
}

pub struct Pool {
    pub docs: Vec<Value>,
    pub rcs: Vec<Rcvar>,
}

impl Pool {
    pub fn new(docs: Vec<Value>) -> Pool {
        let rcs = docs.iter().map(value_to_var).collect();
        Pool { docs, rcs }
    }
}
