//! Comparison of the implementation's search outcome with R-eval's.
use crate::implx::{classify, contains_expref, value_to_var, var_to_value, IClass, Out};
use crate::reval::{deep_eq, Eval, RErr, R, V};
use crate::rparse::Parsed;
use jmespath::{Expression, Rcvar};
use serde_json::Value;

pub fn ref_brief(r: &R<V>) -> String {
    match r {
        Ok(V::J(v)) => format!("value: {}", serde_json::to_string(v).unwrap()),
        Ok(V::X(_)) => "value: <expref>".into(),
        Err(e) => format!("error: {:?} ({})", e.class, e.detail),
    }
}

pub fn unspecified(r: &R<V>) -> bool {
    matches!(r, Err(RErr { detail, .. }) if detail == "UNSPECIFIED")
}

/// Does the implementation's outcome agree with the reference result
/// (values as JSON with numbers by value, errors by class)?
pub fn agrees(r: &R<V>, out: &Out) -> bool {
    match (r, out) {
        (Ok(V::J(v)), Out::Value(w, false)) => deep_eq(v, w),
        (Ok(V::X(_)), Out::Value(_, true)) => true,
        (Err(e), Out::SearchErr(je)) => classify(je) == IClass::Rt(e.class),
        _ => false,
    }
}

pub fn run_impl(expr: &Expression<'_>, doc: &Rcvar) -> Out {
    match crate::implx::guarded(|| match expr.search(doc.clone()) {
        Ok(v) => Out::Value(var_to_value(&v), contains_expref(&v)),
        Err(e) => Out::SearchErr(e),
    }) {
        Ok(o) => o,
        Err(m) => Out::Panic(m),
    }
}

/// Compare on one document; None = agreement (or unspecified).
pub fn compare(p: &Parsed, expr: &Expression<'_>, doc: &Value, doc_rc: &Rcvar) -> Option<(String, String, Out)> {
    let strict = Eval::builtin();
    let r = strict.search(&p.tree, doc);
    if unspecified(&r) {
        return None;
    }
    let out = run_impl(expr, doc_rc);
    if agrees(&r, &out) {
        return None;
    }
    let lenient = Eval::builtin_lenient();
    let r2 = lenient.search(&p.tree, doc);
    if unspecified(&r2) || agrees(&r2, &out) {
        return None;
    }
    Some((ref_brief(&r), out.brief(), out))
}

pub struct Pool {
    pub docs: Vec<Value>,
    pub rcs: Vec<Rcvar>,
}

impl Pool {
    pub fn new(docs: Vec<Value>) -> Pool {
        let rcs = docs.iter().map(value_to_var).collect();
        Pool { docs, rcs }
    }
}

pub enum Verdict {
    Agree(&'static str),
    Skip,
    Mismatch { key: String, expected: String, actual: String },
}

fn text(v: &Value) -> String {
    serde_json::to_string(v).unwrap()
}

/// Decide a top-level builtin call `f(args...)` with the permissive R-fn spec.
pub fn check_top_call(p: &Parsed, expr: &Expression<'_>, doc: &Value, doc_rc: &Rcvar) -> Verdict {
    use crate::reval::{Builtins, ErrClass, Spec};
    use crate::rparse::K;
    let (name, args, at) = match &p.tree.k {
        K::Function(n, a, at) => (n, a, *at),
        _ => panic!("check_top_call needs a call expression"),
    };
    let ev = Eval::builtin();
    let mut av = Vec::new();
    for a in args {
        match ev.ev(a, doc) {
            Ok(v) => av.push(v),
            Err(e) if e.detail == "UNSPECIFIED" => return Verdict::Skip,
            Err(e) => {
                let out = run_impl(expr, doc_rc);
                return match &out {
                    Out::SearchErr(je) if classify(je) == IClass::Rt(e.class) => Verdict::Agree("argument error"),
                    _ => Verdict::Mismatch { key: format!("{}/argument-error", name), expected: format!("error {:?}", e.class), actual: out.brief() },
                };
            }
        }
    }
    let out = run_impl(expr, doc_rc);
    let mism = |key: &str, exp: String| Verdict::Mismatch { key: format!("{}/{}", name, key), expected: exp, actual: out.brief() };
    let sig = crate::reval::sig_of(name);
    match Builtins::spec(&ev, name, &av, at) {
        None => match &out {
            Out::SearchErr(je) if classify(je) == IClass::Rt(ErrClass::UnknownFunction) => Verdict::Agree("unknown function"),
            _ => mism("unknown-function", "unknown-function error".into()),
        },
        Some(Err(e)) if e.detail == "UNSPECIFIED" => Verdict::Skip,
        Some(Err(e)) => match &out {
            Out::SearchErr(je) if classify(je) == IClass::Rt(e.class) => Verdict::Agree(match e.class {
                ErrClass::InvalidArity => "invalid-arity",
                ErrClass::InvalidType => "invalid-type",
                ErrClass::InvalidValue => "invalid-value",
                ErrClass::UnknownFunction => "unknown-function",
            }),
            Out::Value(_, true) | Out::Value(..) if e.class == ErrClass::InvalidType && av.iter().any(|a| matches!(a, V::X(_))) => {
                mism("expref-accepted-as-value", format!("error {:?} ({})", e.class, e.detail))
            }
            _ => mism(&format!("expected-{:?}", e.class), format!("error {:?} ({})", e.class, e.detail)),
        },
        Some(Ok(spec)) => {
            let got = match &out {
                Out::Value(v, false) => v,
                Out::Value(_, true) => return mism("expref-in-result", "a JSON value".into()),
                Out::SearchErr(je) => {
                    return match (&spec, classify(je)) {
                        (Spec::NonFinite, IClass::Parse) => mism("nonfinite-result-reported-as-parse-error", "a runtime error or a number".into()),
                        (Spec::NonFinite, _) => Verdict::Skip,
                        (_, c) => mism(&format!("well-typed-call-fails-{:?}", c).replace(['(', ')'], "-"), "a value".into()),
                    }
                }
                _ => return mism("no-value", "a value".into()),
            };
            if let Some(sig) = &sig {
                if !crate::reval::result_type_ok(sig, got) {
                    return mism("result-type", format!("a value of the declared result type {:?}", sig.result));
                }
            }
            match spec {
                Spec::Exactly(v) => {
                    if deep_eq(&v, got) { Verdict::Agree("value") } else { mism("value", text(&v)) }
                }
                Spec::Same(v) => {
                    if text(&v) == text(got) { Verdict::Agree("value") } else { mism("value", text(&v)) }
                }
                Spec::AnyOf(vs) => {
                    if vs.iter().any(|v| text(v) == text(got)) { Verdict::Agree("value (one of the admissible)") } else { mism("value", format!("one of {}", text(&Value::Array(vs)))) }
                }
                Spec::JsonTextOf(v) => match got {
                    Value::String(s) => match serde_json::from_str::<Value>(s) {
                        Ok(back) if deep_eq(&back, &v) => Verdict::Agree("value"),
                        _ => mism("value", format!("JSON text of {}", text(&v))),
                    },
                    _ => mism("value", "a string".into()),
                },
                Spec::Unspecified => Verdict::Skip,
                Spec::NonFinite => Verdict::Skip,
            }
        }
    }
}
