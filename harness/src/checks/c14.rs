//! C14 -- serde bridge: typed values are searched as their JSON image and decode back.
use crate::engine::{par_sweep, Report, Stats, Tier, Violation};
use crate::implx::{guarded, value_to_var, var_to_value};
use jmespath::{ToJmespath, Variable};
use serde::de::DeserializeOwned;
use serde::ser::{SerializeMap, SerializeSeq, SerializeStruct, SerializeStructVariant, SerializeTuple, SerializeTupleStruct, SerializeTupleVariant};
use serde::{Deserialize, Serialize, Serializer};
use serde_json::{json, Value};
use std::collections::BTreeMap;

/// A universal value whose Serialize impl calls exactly the serializer method
/// named by its variant (all 28 data-model entry points used by JSON).
#[derive(Clone, Debug, PartialEq)]
pub enum Shape {
    Bool(bool),
    I8(i8),
    I16(i16),
    I32(i32),
    I64(i64),
    U8(u8),
    U16(u16),
    U32(u32),
    U64(u64),
    F32(f32),
    F64(f64),
    Char(char),
    Str(String),
    Bytes(Vec<u8>),
    None,
    Some(Box<Shape>),
    Unit,
    UnitStruct,
    UnitVariant,
    NewtypeStruct(Box<Shape>),
    NewtypeVariant(Box<Shape>),
    Seq(Vec<Shape>),
    Tuple(Vec<Shape>),
    TupleStruct(Vec<Shape>),
    TupleVariant(Vec<Shape>),
    Map(Vec<(String, Shape)>),
    Struct(Vec<Shape>),
    StructVariant(Vec<Shape>),
}

const FIELDS: [&str; 3] = ["a", "b", "c"];

impl Serialize for Shape {
    fn serialize<S: Serializer>(&self, s: S) -> Result<S::Ok, S::Error> {
        match self {
            Shape::Bool(v) => s.serialize_bool(*v),
            Shape::I8(v) => s.serialize_i8(*v),
            Shape::I16(v) => s.serialize_i16(*v),
            Shape::I32(v) => s.serialize_i32(*v),
            Shape::I64(v) => s.serialize_i64(*v),
            Shape::U8(v) => s.serialize_u8(*v),
            Shape::U16(v) => s.serialize_u16(*v),
            Shape::U32(v) => s.serialize_u32(*v),
            Shape::U64(v) => s.serialize_u64(*v),
            Shape::F32(v) => s.serialize_f32(*v),
            Shape::F64(v) => s.serialize_f64(*v),
            Shape::Char(v) => s.serialize_char(*v),
            Shape::Str(v) => s.serialize_str(v),
            Shape::Bytes(v) => s.serialize_bytes(v),
            Shape::None => s.serialize_none(),
            Shape::Some(v) => s.serialize_some(&**v),
            Shape::Unit => s.serialize_unit(),
            Shape::UnitStruct => s.serialize_unit_struct("US"),
            Shape::UnitVariant => s.serialize_unit_variant("E", 1, "Uv"),
            Shape::NewtypeStruct(v) => s.serialize_newtype_struct("NS", &**v),
            Shape::NewtypeVariant(v) => s.serialize_newtype_variant("E", 2, "Nv", &**v),
            Shape::Seq(v) => {
                let mut q = s.serialize_seq(Some(v.len()))?;
                for x in v {
                    q.serialize_element(x)?;
                }
                q.end()
            }
            Shape::Tuple(v) => {
                let mut q = s.serialize_tuple(v.len())?;
                for x in v {
                    q.serialize_element(x)?;
                }
                q.end()
            }
            Shape::TupleStruct(v) => {
                let mut q = s.serialize_tuple_struct("TS", v.len())?;
                for x in v {
                    q.serialize_field(x)?;
                }
                q.end()
            }
            Shape::TupleVariant(v) => {
                let mut q = s.serialize_tuple_variant("E", 3, "Tv", v.len())?;
                for x in v {
                    q.serialize_field(x)?;
                }
                q.end()
            }
            Shape::Map(v) => {
                let mut q = s.serialize_map(Some(v.len()))?;
                for (k, x) in v {
                    q.serialize_entry(k, x)?;
                }
                q.end()
            }
            Shape::Struct(v) => {
                let mut q = s.serialize_struct("St", v.len())?;
                for (i, x) in v.iter().enumerate() {
                    q.serialize_field(FIELDS[i], x)?;
                }
                q.end()
            }
            Shape::StructVariant(v) => {
                let mut q = s.serialize_struct_variant("E", 4, "Sv", v.len())?;
                for (i, x) in v.iter().enumerate() {
                    q.serialize_field(FIELDS[i], x)?;
                }
                q.end()
            }
        }
    }
}

pub fn leaves(full: bool) -> Vec<Shape> {
    use Shape::*;
    let mut v = vec![
        Bool(true), Bool(false), I8(i8::MIN), I8(-1), I8(0), I8(i8::MAX), I16(i16::MIN), I16(i16::MAX), I32(i32::MIN), I32(i32::MAX),
        I64(i64::MIN), I64(-1), I64(i64::MAX), U8(0), U8(u8::MAX), U16(u16::MAX), U32(u32::MAX), U64(0), U64(i64::MAX as u64),
        U64(i64::MAX as u64 + 1), U64(u64::MAX), F32(0.5), F32(f32::MAX), F32(f32::NAN), F32(f32::INFINITY), F32(1.0e-40), F64(0.1),
        F64(-0.0), F64(1e300), F64(5e-324), F64(f64::NAN), F64(f64::INFINITY), F64(f64::NEG_INFINITY), F64(1.0), Char('a'), Char('é'),
        Char('€'), Char('😀'), Str("".into()), Str("a".into()), Str("é😀\"\\".into()), Bytes(vec![]), Bytes(vec![0, 255]), None, Unit, UnitStruct,
        UnitVariant,
    ];
    if !full {
        v = vec![
            Bool(true), I8(i8::MIN), I64(i64::MIN), U64(u64::MAX), F32(f32::NAN), F64(0.1), F64(f64::INFINITY), Char('😀'), Str("a".into()),
            Bytes(vec![0, 255]), None, Unit, UnitStruct, UnitVariant,
        ];
    }
    v
}

/// every container kind applied to the given children (width 0, 1, 2)
fn containers(one: &[Shape], two: &[(Shape, Shape)]) -> Vec<Shape> {
    use Shape::*;
    let mut out = vec![Seq(vec![]), Tuple(vec![]), TupleStruct(vec![]), TupleVariant(vec![]), Map(vec![]), Struct(vec![]), StructVariant(vec![])];
    for x in one {
        out.push(Some(Box::new(x.clone())));
        out.push(NewtypeStruct(Box::new(x.clone())));
        out.push(NewtypeVariant(Box::new(x.clone())));
        out.push(Seq(vec![x.clone()]));
        out.push(Tuple(vec![x.clone()]));
        out.push(TupleStruct(vec![x.clone()]));
        out.push(TupleVariant(vec![x.clone()]));
        out.push(Map(vec![("k".into(), x.clone())]));
        out.push(Struct(vec![x.clone()]));
        out.push(StructVariant(vec![x.clone()]));
    }
    for (x, y) in two {
        out.push(Seq(vec![x.clone(), y.clone()]));
        out.push(Tuple(vec![x.clone(), y.clone()]));
        out.push(TupleStruct(vec![x.clone(), y.clone()]));
        out.push(TupleVariant(vec![x.clone(), y.clone()]));
        out.push(Map(vec![("k".into(), x.clone()), ("é".into(), y.clone())]));
        out.push(Map(vec![("k".into(), x.clone()), ("k".into(), y.clone())])); // duplicate key: last wins
        out.push(Struct(vec![x.clone(), y.clone()]));
        out.push(StructVariant(vec![x.clone(), y.clone()]));
    }
    out
}

fn viol(key: &str, sub: &str, case: Value, exp: String, act: String) -> Violation {
    Violation { key: key.into(), check: sub.into(), case, expected: exp, actual: act }
}

pub fn check_shape(x: &Shape, st: &mut Stats) {
    st.states += 1;
    st.transitions += 1;
    st.evaluations += 1;
    st.validated += 1;
    let want = match serde_json::to_value(x) {
        Ok(v) => v,
        Err(_) => {
            st.outcome("serde_json refuses (outside the property)");
            return;
        }
    };
    let case = || json!({"kind": "shape", "shape": format!("{:?}", x)});
    let a = guarded(|| Variable::from_serializable(x).map(|v| var_to_value(&v)).map_err(|e| format!("{:?}", e.reason)));
    let b = guarded(|| x.to_jmespath().map(|v| var_to_value(&v)).map_err(|e| format!("{:?}", e.reason)));
    let c = guarded(|| x.clone().to_jmespath().map(|v| var_to_value(&v)).map_err(|e| format!("{:?}", e.reason)));
    for (name, r) in [("from_serializable", a), ("(&T).to_jmespath", b), ("T.to_jmespath", c)] {
        match r {
            Ok(Ok(v)) if v == want => {}
            other => {
                st.violate(viol(&format!("C14/serialize/{}", variant_name(x)), "serializer", case(), want.to_string(), format!("{}: {:?}", name, other)));
                return;
            }
        }
    }
    // searching the typed value == searching its JSON image
    for e in ["@", "type(@)", "[0]", "*", "k", "a", "to_string(@)", "length(@)"] {
        let expr = jmespath::compile(e).unwrap();
        let l = guarded(|| expr.search(x).map(|v| var_to_value(&v)).map_err(|e| format!("{:?}", e.reason)));
        let r = guarded(|| expr.search(value_to_var(&want)).map(|v| var_to_value(&v)).map_err(|e| format!("{:?}", e.reason)));
        st.transitions += 1;
        if l != r {
            st.violate(viol("C14/search-typed-vs-json", "serializer", json!({"kind": "shape", "shape": format!("{:?}", x), "expression": e}), format!("{:?}", r), format!("{:?}", l)));
            return;
        }
    }
    st.nontrivial += 1;
    st.outcome(variant_name(x));
    if st.states % 1777 == 5 {
        st.sample(|| json!({"shape": format!("{:?}", x), "json": want}));
    }
}

fn variant_name(x: &Shape) -> &'static str {
    use Shape::*;
    match x {
        Bool(_) => "bool", I8(_) => "i8", I16(_) => "i16", I32(_) => "i32", I64(_) => "i64", U8(_) => "u8", U16(_) => "u16", U32(_) => "u32",
        U64(_) => "u64", F32(_) => "f32", F64(_) => "f64", Char(_) => "char", Str(_) => "str", Bytes(_) => "bytes", None => "none", Some(_) => "some",
        Unit => "unit", UnitStruct => "unit_struct", UnitVariant => "unit_variant", NewtypeStruct(_) => "newtype_struct",
        NewtypeVariant(_) => "newtype_variant", Seq(_) => "seq", Tuple(_) => "tuple", TupleStruct(_) => "tuple_struct", TupleVariant(_) => "tuple_variant",
        Map(_) => "map", Struct(_) => "struct", StructVariant(_) => "struct_variant",
    }
}

// ---------------------------------------------------------------------------
// decoding

#[derive(Serialize, Deserialize, PartialEq, Debug, Clone)]
pub struct S1 {
    a: i32,
    b: Option<String>,
}
#[derive(Serialize, Deserialize, PartialEq, Debug, Clone)]
pub enum E1 {
    Unit,
    Newtype(i32),
    Tuple(i32, String),
    Struct { a: i32 },
}
#[derive(Serialize, Deserialize, PartialEq, Debug, Clone)]
pub struct T2(i32, i32);
#[derive(Serialize, Deserialize, PartialEq, Debug, Clone)]
pub struct N1(i32);
#[derive(Serialize, Deserialize, PartialEq, Debug, Clone)]
pub struct U0;
#[derive(Serialize, Deserialize, PartialEq, Debug, Clone)]
pub struct Nest {
    s: S1,
    e: E1,
    v: Vec<E1>,
    o: Option<Box<Nest>>,
}
#[derive(Serialize, Deserialize, PartialEq, Debug, Clone)]
#[serde(deny_unknown_fields)]
pub struct Strict {
    a: i32,
}
#[derive(Serialize, Deserialize, PartialEq, Debug, Clone)]
pub struct Dflt {
    #[serde(default)]
    a: i32,
    #[serde(default)]
    b: Vec<u8>,
}
#[derive(Serialize, Deserialize, PartialEq, Debug, Clone)]
#[serde(untagged)]
pub enum Unt {
    I(i64),
    S(String),
    L(Vec<i64>),
    M { a: i64 },
}
#[derive(Serialize, Deserialize, PartialEq, Debug, Clone)]
#[serde(tag = "t")]
pub enum Tagged {
    A { a: i32 },
    B,
}
#[derive(Serialize, Deserialize, PartialEq, Debug, Clone)]
pub enum E2 {
    #[serde(rename = "a")]
    A(Option<i32>),
    #[serde(rename = "b")]
    B(Vec<bool>),
    #[serde(rename = "c")]
    C((), ()),
}

/// hand-written visitors that stop early: a map visitor that reads only the first entry, a sequence visitor
/// that reads only the first element (serde_json reports what is left over as an error)
#[derive(PartialEq, Debug, Clone)]
pub struct FirstEntry(Option<String>);
impl<'de> Deserialize<'de> for FirstEntry {
    fn deserialize<D: serde::Deserializer<'de>>(d: D) -> Result<Self, D::Error> {
        struct V;
        impl<'de> serde::de::Visitor<'de> for V {
            type Value = FirstEntry;
            fn expecting(&self, f: &mut std::fmt::Formatter) -> std::fmt::Result {
                f.write_str("a map")
            }
            fn visit_map<A: serde::de::MapAccess<'de>>(self, mut m: A) -> Result<FirstEntry, A::Error> {
                match m.next_key::<String>()? {
                    Some(k) => {
                        let _: serde::de::IgnoredAny = m.next_value()?;
                        Ok(FirstEntry(Some(k)))
                    }
                    None => Ok(FirstEntry(None)),
                }
            }
        }
        d.deserialize_map(V)
    }
}
#[derive(PartialEq, Debug, Clone)]
pub struct FirstElem(Option<i64>);
impl<'de> Deserialize<'de> for FirstElem {
    fn deserialize<D: serde::Deserializer<'de>>(d: D) -> Result<Self, D::Error> {
        struct V;
        impl<'de> serde::de::Visitor<'de> for V {
            type Value = FirstElem;
            fn expecting(&self, f: &mut std::fmt::Formatter) -> std::fmt::Result {
                f.write_str("a sequence")
            }
            fn visit_seq<A: serde::de::SeqAccess<'de>>(self, mut s: A) -> Result<FirstElem, A::Error> {
                Ok(FirstElem(s.next_element::<i64>()?))
            }
        }
        d.deserialize_seq(V)
    }
}
/// a visitor for "anything" that stops early in maps and sequences (through deserialize_any)
#[derive(PartialEq, Debug, Clone)]
pub struct AnyFirst(String);
impl<'de> Deserialize<'de> for AnyFirst {
    fn deserialize<D: serde::Deserializer<'de>>(d: D) -> Result<Self, D::Error> {
        struct V;
        impl<'de> serde::de::Visitor<'de> for V {
            type Value = AnyFirst;
            fn expecting(&self, f: &mut std::fmt::Formatter) -> std::fmt::Result {
                f.write_str("anything")
            }
            fn visit_unit<E>(self) -> Result<AnyFirst, E> { Ok(AnyFirst("unit".into())) }
            fn visit_bool<E>(self, b: bool) -> Result<AnyFirst, E> { Ok(AnyFirst(format!("bool {}", b))) }
            fn visit_i64<E>(self, n: i64) -> Result<AnyFirst, E> { Ok(AnyFirst(format!("i64 {}", n))) }
            fn visit_u64<E>(self, n: u64) -> Result<AnyFirst, E> { Ok(AnyFirst(format!("u64 {}", n))) }
            fn visit_f64<E>(self, n: f64) -> Result<AnyFirst, E> { Ok(AnyFirst(format!("f64 {}", n))) }
            fn visit_str<E>(self, s: &str) -> Result<AnyFirst, E> { Ok(AnyFirst(format!("str {}", s))) }
            fn visit_map<A: serde::de::MapAccess<'de>>(self, mut m: A) -> Result<AnyFirst, A::Error> {
                match m.next_key::<String>()? {
                    Some(k) => {
                        let _: serde::de::IgnoredAny = m.next_value()?;
                        Ok(AnyFirst(format!("map starting with {}", k)))
                    }
                    None => Ok(AnyFirst("empty map".into())),
                }
            }
            fn visit_seq<A: serde::de::SeqAccess<'de>>(self, mut s: A) -> Result<AnyFirst, A::Error> {
                match s.next_element::<serde::de::IgnoredAny>()? {
                    Some(_) => Ok(AnyFirst("non-empty sequence".into())),
                    None => Ok(AnyFirst("empty sequence".into())),
                }
            }
        }
        d.deserialize_any(V)
    }
}
#[derive(Serialize, Deserialize, PartialEq, Eq, PartialOrd, Ord, Debug, Clone)]
pub struct KeyNew(String);
#[derive(Serialize, Deserialize, PartialEq, Eq, PartialOrd, Ord, Debug, Clone)]
pub enum KeyEnum {
    #[serde(rename = "a")]
    A,
    #[serde(rename = "b")]
    B,
}

/// f64 with NaN-free equality for comparison through Debug
fn dbg<T: std::fmt::Debug>(r: &Result<T, String>) -> String {
    match r {
        Ok(v) => format!("Ok({:?})", v),
        Err(_) => "Err".into(),
    }
}

pub fn decode_as<T: DeserializeOwned + std::fmt::Debug>(tname: &str, j: &Value, st: &mut Stats) {
    st.evaluations += 1;
    st.validated += 1;
    st.transitions += 1;
    let want: Result<T, String> = serde_json::from_value::<T>(j.clone()).map_err(|e| e.to_string());
    let got: Result<Result<T, String>, String> = guarded(|| {
        let v: Variable = (*value_to_var(j)).clone();
        T::deserialize(v).map_err(|e| e.to_string())
    });
    let got = match got {
        Ok(g) => g,
        Err(m) => {
            st.violate(viol("C14/decode/panic", "deserializer", json!({"kind": "decode", "type": tname, "json": j}), dbg(&want), m));
            return;
        }
    };
    if dbg(&want) != dbg(&got) {
        let key = match (&want, &got) {
            (Err(_), Ok(_)) => format!("C14/decode/accepts-what-serde_json-rejects/{}", tname),
            (Ok(_), Err(_)) => format!("C14/decode/rejects-what-serde_json-accepts/{}", tname),
            _ => format!("C14/decode/different-value/{}", tname),
        };
        st.violate(viol(&key, "deserializer", json!({"kind": "decode", "type": tname, "json": j}), format!("{} ({})", dbg(&want), want.as_ref().err().cloned().unwrap_or_default()), format!("{} ({})", dbg(&got), got.as_ref().err().cloned().unwrap_or_default())));
        return;
    }
    if want.is_ok() {
        st.nontrivial += 1;
        st.outcome("decoded equal values");
        // round trip through the library: value -> search '@' -> decode
        let rt: Result<Result<T, String>, String> = guarded(|| {
            let e = jmespath::compile("@").unwrap();
            let r = e.search(value_to_var(j)).map_err(|e| e.to_string())?;
            T::deserialize((*r).clone()).map_err(|e| e.to_string())
        });
        if let Ok(r) = rt {
            if dbg(&r) != dbg(&want) {
                st.violate(viol(&format!("C14/decode/round-trip/{}", tname), "deserializer", json!({"kind": "decode", "type": tname, "json": j}), dbg(&want), dbg(&r)));
            }
        }
    } else {
        st.outcome("rejected by both");
    }
}

macro_rules! all_types {
    ($m:ident, $j:expr, $st:expr) => {
        $m::<S1>("S1", $j, $st);
        $m::<E1>("E1", $j, $st);
        $m::<T2>("T2", $j, $st);
        $m::<N1>("N1", $j, $st);
        $m::<U0>("U0", $j, $st);
        $m::<Nest>("Nest", $j, $st);
        $m::<Strict>("Strict", $j, $st);
        $m::<Dflt>("Dflt", $j, $st);
        $m::<Unt>("Unt", $j, $st);
        $m::<Tagged>("Tagged", $j, $st);
        $m::<E2>("E2", $j, $st);
        $m::<(i32, i32)>("(i32,i32)", $j, $st);
        $m::<(i32,)>("(i32,)", $j, $st);
        $m::<[i32; 2]>("[i32;2]", $j, $st);
        $m::<Vec<i32>>("Vec<i32>", $j, $st);
        $m::<Vec<Option<bool>>>("Vec<Option<bool>>", $j, $st);
        $m::<Option<i32>>("Option<i32>", $j, $st);
        $m::<Option<Option<i32>>>("Option<Option<i32>>", $j, $st);
        $m::<BTreeMap<String, i32>>("BTreeMap<String,i32>", $j, $st);
        $m::<BTreeMap<String, Value>>("BTreeMap<String,Value>", $j, $st);
        $m::<u8>("u8", $j, $st);
        $m::<i8>("i8", $j, $st);
        $m::<u16>("u16", $j, $st);
        $m::<i16>("i16", $j, $st);
        $m::<u32>("u32", $j, $st);
        $m::<i32>("i32", $j, $st);
        $m::<u64>("u64", $j, $st);
        $m::<i64>("i64", $j, $st);
        $m::<f32>("f32", $j, $st);
        $m::<f64>("f64", $j, $st);
        $m::<bool>("bool", $j, $st);
        $m::<String>("String", $j, $st);
        $m::<char>("char", $j, $st);
        $m::<()>("()", $j, $st);
        $m::<Value>("Value", $j, $st);
        $m::<Box<[u8]>>("Box<[u8]>", $j, $st);
        $m::<FirstEntry>("FirstEntry", $j, $st);
        $m::<FirstElem>("FirstElem", $j, $st);
        $m::<AnyFirst>("AnyFirst", $j, $st);
        $m::<BTreeMap<KeyNew, i32>>("BTreeMap<KeyNew,i32>", $j, $st);
        $m::<BTreeMap<KeyEnum, i32>>("BTreeMap<KeyEnum,i32>", $j, $st);
        $m::<BTreeMap<char, i32>>("BTreeMap<char,i32>", $j, $st);
        $m::<Vec<FirstEntry>>("Vec<FirstEntry>", $j, $st);
    };
}

pub fn decode_all(j: &Value, st: &mut Stats) {
    st.states += 1;
    all_types!(decode_as, j, st);
}

/// types whose serde impls branch on is_human_readable(), and direct probes of the flag
#[derive(Debug, PartialEq)]
pub struct HrProbe(pub bool);
impl Serialize for HrProbe {
    fn serialize<S: Serializer>(&self, s: S) -> Result<S::Ok, S::Error> {
        let hr = s.is_human_readable();
        s.serialize_str(if hr { "human-readable" } else { "compact" })
    }
}
impl<'de> Deserialize<'de> for HrProbe {
    fn deserialize<D: serde::Deserializer<'de>>(d: D) -> Result<Self, D::Error> {
        let hr = d.is_human_readable();
        let _ = serde::de::IgnoredAny::deserialize(d)?;
        Ok(HrProbe(hr))
    }
}

pub fn check_human_readable(st: &mut Stats) {
    use std::net::{IpAddr, Ipv4Addr, Ipv6Addr, SocketAddr};
    fn image<T: Serialize>(name: &str, x: &T, st: &mut Stats) {
        st.states += 1;
        st.evaluations += 1;
        st.validated += 1;
        st.transitions += 1;
        let want = serde_json::to_value(x).unwrap();
        let got = guarded(|| Variable::from_serializable(x).map(|v| var_to_value(&v)).map_err(|e| format!("{:?}", e.reason)));
        match got {
            Ok(Ok(v)) if v == want => {
                st.nontrivial += 1;
                st.outcome("human-readable type");
            }
            other => st.violate(viol("C14/serialize/human-readable", "serializer", json!({"kind": "human-readable", "type": name}), want.to_string(), format!("{:?}", other))),
        }
    }
    image("Ipv4Addr", &Ipv4Addr::new(10, 0, 0, 254), st);
    image("IpAddr(v6)", &IpAddr::V6(Ipv6Addr::LOCALHOST), st);
    image("SocketAddr", &"127.0.0.1:80".parse::<SocketAddr>().unwrap(), st);
    image("Vec<IpAddr>", &vec![IpAddr::V4(Ipv4Addr::LOCALHOST)], st);
    image("HrProbe", &HrProbe(true), st);
    image("Some(HrProbe) in a map", &std::collections::BTreeMap::from([("k".to_string(), Some(HrProbe(true)))]), st);
    for j in [json!("127.0.0.1"), json!("::1"), json!([127, 0, 0, 1]), json!({"V4": [127, 0, 0, 1]}), json!("10.0.0.254:80"), json!(1), json!(null), json!([1, 2])] {
        decode_as::<IpAddr>("IpAddr", &j, st);
        decode_as::<Ipv4Addr>("Ipv4Addr", &j, st);
        decode_as::<SocketAddr>("SocketAddr", &j, st);
        decode_as::<HrProbe>("HrProbe", &j, st);
        decode_as::<Vec<HrProbe>>("Vec<HrProbe>", &j, st);
    }
}

pub fn decode_pool(tier: Tier) -> Vec<Value> {
    let mut v = crate::enumr::pool_full();
    let _ = tier;
    v.extend(crate::enumr::docs_d22_reduced());
    // each type's own images and near misses
    let own = vec![
        json!({"a": 1, "b": "x"}), json!({"a": 1, "b": null}), json!({"a": 1}), json!({"a": 1, "b": "x", "c": 0}), json!({"a": "1"}),
        json!({"b": "x"}), json!([1, "x"]), json!([1, "x", 3]), json!([1]), json!("Unit"), json!({"Unit": null}), json!({"Newtype": 1}),
        json!({"Newtype": "1"}), json!({"Tuple": [1, "a"]}), json!({"Tuple": [1, "a", 2]}), json!({"Tuple": [1]}), json!({"Tuple": []}),
        json!({"Struct": {"a": 1}}), json!({"Struct": {"a": 1, "z": 2}}), json!({"Struct": [1]}), json!({"Struct": {}}), json!({"Unit": 1}),
        json!({"Nope": 1}), json!("Nope"), json!("Newtype"), json!({"Unit": null, "Newtype": 1}), json!({}), json!([1, 2]), json!([1, 2, 3]),
        json!([]), json!([1, null]), json!([null, true, false]), json!(1), json!(-1), json!(255), json!(256), json!(-128), json!(-129), json!(65535),
        json!(65536), json!(4294967295u64), json!(4294967296u64), json!(i64::MAX), json!(i64::MIN), json!(u64::MAX), json!(1.0), json!(1.5), json!(1e40),
        json!(-0.0), json!("a"), json!("ab"), json!("é"), json!("😀"), json!(""), json!(null), json!(true),
        json!({"s": {"a": 1, "b": null}, "e": "Unit", "v": [{"Newtype": 1}, "Unit"], "o": null}),
        json!({"s": {"a": 1, "b": null}, "e": {"Struct": {"a": 2}}, "v": [], "o": {"s": {"a": 0, "b": "q"}, "e": {"Tuple": [1, "t"]}, "v": ["Unit"], "o": null}}),
        json!({"t": "A", "a": 1}), json!({"t": "B"}), json!({"t": "C"}), json!({"a": 1, "t": "A"}), json!({"t": "A"}), json!({"a": [1, 2], "b": [0, 255]}),
        json!({"a": null}), json!({"a": 5}), json!({"b": [true]}), json!({"c": [null, null]}), json!({"c": []}), json!({"c": [null, null, null]}),
        json!({"k": 1, "é": 2}), json!({"a": {"a": 1}}), json!([[1, 2], [3]]), json!([0, 255]), json!([0, 256]), json!({"a": 1, "a2": 2}),
    ];
    v.extend(own);
    crate::enumr::dedup(v)
}

pub fn run(tier: Tier) -> i32 {
    let mut rep = Report::new("C14", tier);
    let full = leaves(true);
    let red = leaves(false);
    // depth 0 and 1 over the full leaf set
    let mut shapes: Vec<Shape> = full.clone();
    let pairs_full: Vec<(Shape, Shape)> = full.iter().flat_map(|x| full.iter().map(move |y| (x.clone(), y.clone()))).collect();
    shapes.extend(containers(&full, &pairs_full));
    // depth 2: containers of depth-1 shapes over the reduced leaves
    let pairs_red: Vec<(Shape, Shape)> = red.iter().flat_map(|x| red.iter().map(move |y| (x.clone(), y.clone()))).collect();
    let d1: Vec<Shape> = containers(&red, &pairs_red);
    let mixed: Vec<(Shape, Shape)> = d1.iter().flat_map(|x| red.iter().flat_map(move |y| vec![(x.clone(), y.clone()), (y.clone(), x.clone())])).collect();
    shapes.extend(containers(&d1, &mixed));
    if tier == Tier::Thorough {
        // depth 3 spine and depth-2 x depth-1 pairs on a stride
        let d2: Vec<Shape> = containers(&d1, &[]);
        let some: Vec<Shape> = d2.iter().step_by(3).cloned().collect();
        let pairs: Vec<(Shape, Shape)> = d1.iter().step_by(5).flat_map(|x| d1.iter().step_by(7).map(move |y| (x.clone(), y.clone()))).collect();
        shapes.extend(containers(&some, &pairs));
    }
    let mut st = par_sweep(shapes.chunks(256).map(|c| c.to_vec()).collect(), |chunk: &Vec<Shape>, st| {
        for x in chunk {
            check_shape(x, st);
        }
    });
    st.count("shapes", shapes.len() as u64);
    let pool = decode_pool(tier);
    let sd = par_sweep(pool.chunks(16).map(|c| c.to_vec()).collect(), |chunk: &Vec<Value>, st| {
        for j in chunk {
            decode_all(j, st);
        }
    });
    st = st.merge(sd);
    check_human_readable(&mut st);
    let kinds = ["bool", "i8", "u64", "f32", "char", "bytes", "some", "unit_struct", "unit_variant", "newtype_struct", "newtype_variant", "seq", "tuple", "tuple_struct", "tuple_variant", "map", "struct", "struct_variant"];
    rep.guard("every serializer method family was exercised", kinds.iter().all(|k| st.outcomes.get(*k).cloned().unwrap_or(0) > 0));
    rep.guard("decoding succeeds for many (type, value) pairs", st.outcomes.get("decoded equal values").cloned().unwrap_or(0) > 200);
    rep.rule = "serializer: a universal Shape value whose Serialize calls exactly one serializer method per variant (28 methods), all shapes of depth <= 1 over the full leaf alphabet (every width's MIN/MAX, u64 > i64::MAX, NaN/inf, 1-4 byte chars, bytes) and of depth 2 over a reduced alphabet, width <= 2: from_serializable / to_jmespath image == serde_json::to_value, and 8 searches on the typed value == on its JSON image. deserializer: 36 Deserialize types (all four enum variant shapes, tagged/untagged enums, options, tuples, arrays, maps, nested and strict structs, every integer width) x the JSON pool + each type's own images and near misses: T::deserialize(Variable) vs serde_json::from_value (equal Ok values, Err iff Err) and the round trip through search('@'). non-trivial = image compared / value decoded".into();
    rep.bounds = json!({"shapes": shapes.len(), "decode_pool": pool.len(), "types": 36});
    rep.stats = st;
    rep.finish()
}

pub fn replay(case: &Value) -> Option<(String, bool)> {
    let mut st = Stats::default();
    match case["kind"].as_str()? {
        "decode" => {
            decode_all(&case["json"], &mut st);
            let t = case["type"].as_str()?;
            let v = st.violations.iter().find(|v| v.case["type"] == json!(t));
            Some(match v {
                Some(v) => (format!("{}: expected {} actual {}", v.key, v.expected, v.actual), true),
                None => ("agree".into(), false),
            })
        }
        "human-readable" => {
            check_human_readable(&mut st);
            Some(match st.violations.first() {
                Some(v) => (format!("{}: expected {} actual {}", v.key, v.expected, v.actual), true),
                None => ("agree".into(), false),
            })
        }
        "shape" => {
            // shapes are re-enumerated and matched by their Debug form
            let want = case["shape"].as_str()?;
            let full = leaves(true);
            let pairs_full: Vec<(Shape, Shape)> = full.iter().flat_map(|x| full.iter().map(move |y| (x.clone(), y.clone()))).collect();
            let mut shapes = full.clone();
            shapes.extend(containers(&full, &pairs_full));
            for x in shapes.iter().filter(|x| format!("{:?}", x) == want) {
                check_shape(x, &mut st);
            }
            Some(match st.violations.first() {
                Some(v) => (format!("{}: expected {} actual {}", v.key, v.expected, v.actual), true),
                None => ("agree (or shape beyond the replay enumeration)".into(), false),
            })
        }
        _ => None,
    }
}
