//! C08 -- JSON data passes through unchanged.
use crate::checks::c03::{char_dfs, char_shards};
use crate::engine::{par_sweep, Report, Stats, Tier, Violation};
use crate::implx::{guarded, value_to_var, var_to_value};
use crate::rlex::json_string_decode;
use jmespath::{Rcvar, ToJmespath, Variable};
use serde_json::{json, Value};
use std::convert::TryFrom;

fn viol(key: &str, sub: &str, text: &str, exp: String, act: String) -> Violation {
    Violation {
        key: key.into(),
        check: sub.into(),
        case: json!({"kind": "json-text", "text": text, "sub": sub}),
        expected: exp,
        actual: act,
    }
}

/// from_json -> search '@' -> (manual conversion, Display text)
fn through(text: &str) -> Result<Result<(Value, String, Rcvar), String>, String> {
    guarded(|| {
        let v = Variable::from_json(text)?;
        let e = jmespath::compile("@").map_err(|e| e.to_string())?;
        let r = e.search(v).map_err(|e| e.to_string())?;
        Ok((var_to_value(&r), r.to_string(), r))
    })
}

fn ulps(a: f64, b: f64) -> u64 {
    // "exactly the double it denotes": the two zeros are different doubles
    if a.to_bits() == b.to_bits() {
        return 0;
    }
    let (x, y) = (a.to_bits() as i64, b.to_bits() as i64);
    if (x < 0) != (y < 0) {
        return u64::MAX;
    }
    (x - y).unsigned_abs()
}

#[derive(Clone, Copy, PartialEq)]
enum NumKind {
    Integer,
    ExactFloat,
    LooseFloat,
}

fn classify_numeral(t: &str) -> NumKind {
    let body = t.trim_start_matches('-');
    if body.chars().all(|c| c.is_ascii_digit()) {
        // integers beyond the 64-bit ranges are read as doubles
        if t.parse::<i64>().is_ok() || t.parse::<u64>().is_ok() {
            if body == "0" && t.starts_with('-') {
                return NumKind::LooseFloat;
            }
            return NumKind::Integer;
        }
    }
    let (mant, exp) = match body.find(|c| c == 'e' || c == 'E') {
        Some(i) => (&body[..i], body[i + 1..].parse::<i32>().unwrap_or(9999)),
        None => (body, 0),
    };
    let digits: String = mant.chars().filter(|c| c.is_ascii_digit()).collect();
    let sig = digits.trim_start_matches('0').len();
    let frac = mant.find('.').map_or(0, |i| mant.len() - i - 1) as i32;
    let dec_exp = exp - frac;
    if sig <= 15 && dec_exp.abs() <= 22 {
        NumKind::ExactFloat
    } else {
        NumKind::LooseFloat
    }
}

pub fn check_numeral(t: &str, st: &mut Stats) {
    st.evaluations += 1;
    st.validated += 1;
    let want: Option<Value> = serde_json::from_str::<Value>(t).ok();
    let got = through(t);
    let (val, text, rc) = match (got, &want) {
        (Err(m), _) => {
            st.violate(viol("C08/panic", "numerals", t, "no panic".into(), m));
            return;
        }
        (Ok(Err(_)), None) => {
            st.outcome("rejected by both (out of range)");
            return;
        }
        (Ok(Err(e)), Some(w)) => {
            st.violate(viol("C08/valid-json-rejected", "numerals", t, w.to_string(), e));
            return;
        }
        (Ok(Ok(_)), None) => {
            st.violate(viol("C08/invalid-json-accepted", "numerals", t, "error".into(), "accepted".into()));
            return;
        }
        (Ok(Ok(x)), Some(_)) => x,
    };
    let want = want.unwrap();
    let kind = classify_numeral(t);
    let reparsed: Option<Value> = serde_json::from_str::<Value>(&text).ok();
    match kind {
        NumKind::Integer => {
            st.outcome("integer");
            st.nontrivial += 1;
            // exact value and integer spelling
            if text != t || val != want || reparsed.as_ref() != Some(&want) {
                st.violate(viol("C08/integer", "numerals", t, t.to_string(), format!("{} / {}", val, text)));
                return;
            }
        }
        NumKind::ExactFloat | NumKind::LooseFloat => {
            let ideal: f64 = t.parse::<f64>().unwrap();
            let g = val.as_f64();
            let g2 = reparsed.as_ref().and_then(|v| v.as_f64());
            let tol = if kind == NumKind::ExactFloat { 0 } else { 2 };
            st.outcome(if kind == NumKind::ExactFloat { "exact-class float" } else { "loose-class float" });
            let ok = match (g, g2) {
                (Some(a), Some(b)) => {
                    // the printed text is itself a numeral: exact class => same
                    // double back, otherwise within 2 ulp
                    let tol2 = if classify_numeral(&text) == NumKind::ExactFloat { 0 } else { 2 };
                    ulps(a, ideal) <= tol && ulps(a, b) <= tol2 && val.is_f64() == want.is_f64()
                }
                _ => false,
            };
            if !ok {
                st.violate(viol("C08/float", "numerals", t, format!("{:e} (bits {:x})", ideal, ideal.to_bits()), format!("{} / {}", val, text)));
                return;
            }
        }
    }
    // serde paths: Serialize of the result, conversions from / to Value
    let via_ser = serde_json::to_value(&*rc).ok();
    let via_try = Variable::try_from(&want).ok().map(|v| var_to_value(&v));
    let via_try_owned = Variable::try_from(want.clone()).ok().map(|v| var_to_value(&v));
    let via_de = serde_json::from_value::<Variable>(want.clone()).ok().map(|v| var_to_value(&v));
    for (name, v) in [("Serialize", via_ser), ("TryFrom<&Value>", via_try), ("TryFrom<Value>", via_try_owned), ("Deserialize-from-Value", via_de)] {
        if v.as_ref() != Some(&want) {
            st.violate(viol("C08/conversion", "numerals", t, want.to_string(), format!("{}: {:?}", name, v)));
            return;
        }
    }
    st.sample(|| json!({"numeral": t, "printed": text}));
}

pub fn numerals(tier: Tier) -> Vec<String> {
    let mut v: Vec<String> = Vec::new();
    let maxint = tier.pick(10000i64, 100000);
    for i in 0..maxint {
        v.push(i.to_string());
        if i > 0 {
            v.push(format!("-{}", i));
        }
    }
    v.push("-0".into());
    for p in 0..=64u32 {
        let b: i128 = 1i128 << p;
        for d in [-1i128, 0, 1] {
            v.push((b + d).to_string());
            v.push((-(b + d)).to_string());
        }
    }
    for s in ["9223372036854775807", "-9223372036854775808", "-9223372036854775809", "18446744073709551615", "18446744073709551616", "10000000000000000000", "100000000000000000000", "9007199254740993", "-9007199254740993", "123456789012345678", "1e999", "-1e999", "1e400"] {
        v.push(s.into());
    }
    let digs = ['0', '1', '4', '5', '9'];
    let mut exps: Vec<i32> = (-25..=25).collect();
    exps.extend_from_slice(&[-308, -320, -324, -330, 308, 300, -300]);
    let nd = tier.pick(4, 5);
    let mut mants: Vec<String> = Vec::new();
    fn rec(cur: &mut String, left: usize, digs: &[char], out: &mut Vec<String>) {
        if !cur.is_empty() {
            out.push(cur.clone());
        }
        if left == 0 {
            return;
        }
        for &d in digs {
            cur.push(d);
            rec(cur, left - 1, digs, out);
            cur.pop();
        }
    }
    rec(&mut String::new(), nd, &digs, &mut mants);
    for m in &mants {
        let (h, t) = m.split_at(1);
        let mant = if t.is_empty() { h.to_string() } else { format!("{}.{}", h, t) };
        if h == "0" && t.is_empty() {
            continue;
        }
        for e in &exps {
            v.push(format!("{}e{}", mant, e));
            v.push(format!("-{}e{}", mant, e));
        }
        v.push(mant.clone());
    }
    // 15- and 17-digit representatives at every decade
    for e in -30..=30 {
        v.push(format!("1.23456789012345e{}", e));
        v.push(format!("9.99999999999999e{}", e));
        v.push(format!("1.2345678901234567e{}", e));
        v.push(format!("8.9884656743115795e{}", e));
        v.push(format!("0.1e{}", e));
    }
    for s in ["0.1", "0.2", "0.3", "1.0", "1.5", "0.30000000000000004", "2.2250738585072014e-308", "4.9e-324", "5e-324", "1.7976931348623157e308", "0.0", "-0.0", "1E2", "1e+2", "1.0e2", "100.0"] {
        v.push(s.into());
    }
    v.sort();
    v.dedup();
    v
}

pub const STR_CHARS: &[char] = &['a', '"', '\\', '/', 'é', '😀', '\u{1}', '\u{2028}'];

fn spellings(s: &str) -> Vec<String> {
    let minimal = serde_json::to_string(&Value::String(s.into())).unwrap();
    let mut full = String::from("\"");
    let mut short = String::from("\"");
    for c in s.chars() {
        let mut buf = [0u16; 2];
        for u in c.encode_utf16(&mut buf) {
            full.push_str(&format!("\\u{:04X}", u));
        }
        match c {
            '"' => short.push_str("\\\""),
            '\\' => short.push_str("\\\\"),
            '/' => short.push_str("\\/"),
            c if (c as u32) < 0x20 => short.push_str(&format!("\\u{:04x}", c as u32)),
            c => short.push(c),
        }
    }
    full.push('"');
    short.push('"');
    vec![minimal, full, short]
}

pub fn check_string(s: &str, st: &mut Stats) {
    for sp in spellings(s) {
        // independent decoding of the spelling
        let inner = &sp[1..sp.len() - 1];
        if json_string_decode(inner).as_deref() != Some(s) {
            st.count("MODEL_ERROR_spelling", 1);
            continue;
        }
        for (text, pick) in [
            (sp.clone(), 0),
            (format!("[{}]", sp), 1),
            (format!("{{{}:{}}}", sp, sp), 2),
        ] {
            st.evaluations += 1;
            st.validated += 1;
            let want = match pick {
                0 => json!(s),
                1 => json!([s]),
                _ => {
                    let mut m = serde_json::Map::new();
                    m.insert(s.to_string(), json!(s));
                    Value::Object(m)
                }
            };
            match through(&text) {
                Ok(Ok((val, printed, _))) => {
                    let re = serde_json::from_str::<Value>(&printed).ok();
                    if val != want || re.as_ref() != Some(&want) {
                        st.violate(viol("C08/string", "strings", &text, want.to_string(), format!("{} / {}", val, printed)));
                    } else {
                        st.nontrivial += 1;
                        st.outcome("string preserved");
                    }
                }
                Ok(Err(e)) => st.violate(viol("C08/valid-json-rejected", "strings", &text, want.to_string(), e)),
                Err(m) => st.violate(viol("C08/panic", "strings", &text, want.to_string(), m)),
            }
        }
    }
}

fn check_malformed(st: &mut Stats) {
    let bad = [
        "\"\\ud800\"", "\"\\udc00\"", "\"\\ud800\\u0041\"", "\"\\ud800x\"", "\"\\x\"", "\"\\u12\"", "\"\u{1}\"", "\"abc",
        "\"\\", "\"\\ud83d\"", "\"\\ude00\\ud83d\"", "[1,]", "{\"a\":}", "{\"a\" 1}", "[1 2]", "01", "1.", ".5", "+1", "0x1",
        "nul", "tru", "", " ", "[", "{", "{\"a\":1,}", "\"a\" \"b\"", "1 2", "NaN", "Infinity", "-", "--1", "1e", "1e+",
        "'a'", "\u{feff}1", "\"\\u00zz\"", "\"\t\"",
    ];
    for t in bad {
        st.evaluations += 1;
        st.validated += 1;
        if serde_json::from_str::<Value>(t).is_ok() {
            st.count("MODEL_ERROR_malformed_accepted_by_reference", 1);
            continue;
        }
        match guarded(|| Variable::from_json(t)) {
            Ok(Err(_)) => st.outcome("malformed rejected"),
            Ok(Ok(v)) => st.violate(viol("C08/malformed-accepted", "malformed", t, "error".into(), format!("{:?}", v))),
            Err(m) => st.violate(viol("C08/panic", "malformed", t, "error".into(), m)),
        }
    }
}

/// one nesting shape built in memory through every conversion path that takes a value
pub fn check_nested_in_memory(kind: &str, depth: usize, st: &mut Stats) {
    let mut want = if kind == "mixed" { Value::Null } else { json!(1) };
    for i in 0..depth {
        want = match (kind, i % 2) {
            ("array", _) | ("mixed", 1) => Value::Array(vec![want]),
            _ => json!({ "a": want }),
        };
    }
    st.states += 1;
    st.transitions += 1;
    st.evaluations += 1;
    st.validated += 1;
    let label = format!("{} nested {} levels, built in memory", kind, depth);
    let r = guarded(|| {
        let rc = value_to_var(&want);
        let id = jmespath::compile("@").ok().and_then(|e| e.search(rc.clone()).ok()).map(|v| var_to_value(&v));
        let id_ref = jmespath::compile("@").ok().and_then(|e| e.search(&want).ok()).map(|v| var_to_value(&v));
        let first = jmespath::compile("[@][0]").ok().and_then(|e| e.search(want.clone()).ok()).map(|v| var_to_value(&v));
        let ser = serde_json::to_value(&*rc).ok();
        let tj = (&want).to_jmespath().ok().map(|v| var_to_value(&v));
        let tf = Variable::try_from(&want).ok().map(|v| var_to_value(&v));
        let tfo = Variable::try_from(want.clone()).ok().map(|v| var_to_value(&v));
        let de = serde_json::from_value::<Variable>(want.clone()).ok().map(|v| var_to_value(&v));
        let via_deser: Option<Value> = <Value as serde::Deserialize>::deserialize((*rc).clone()).ok();
        vec![("search(@) of a Variable", id), ("search(@) of a &Value", id_ref), ("search([@][0]) of a Value", first), ("Serialize", ser), ("(&Value).to_jmespath", tj), ("TryFrom<&Value>", tf), ("TryFrom<Value>", tfo), ("Deserialize", de), ("Value::deserialize(Variable)", via_deser)]
    });
    match r {
        Ok(all) => {
            let mut ok = true;
            for (name, v) in all {
                if v.as_ref() != Some(&want) {
                    st.violate(viol("C08/document", "nesting-ladder", &label, "the document, unchanged".into(), format!("{}: {}", name, v.map_or("rejected".to_string(), |x| crate::engine::trunc(&x.to_string(), 80)))));
                    ok = false;
                    break;
                }
            }
            if ok {
                st.nontrivial += 1;
                st.outcome("nested document preserved");
            }
        }
        Err(m) => st.violate(viol("C08/panic", "nesting-ladder", &label, "a value".into(), m)),
    }
}

pub fn check_document_text(text: &str, want: &Value, st: &mut Stats) {
    st.evaluations += 1;
    st.validated += 1;
    match through(text) {
        Ok(Ok((val, printed, rc))) => {
            let re = serde_json::from_str::<Value>(&printed).ok();
            let re2 = Variable::from_json(&printed).ok().map(|v| var_to_value(&v));
            let ser = serde_json::to_value(&*rc).ok();
            let tj = guarded(|| want.to_jmespath().ok().map(|v| var_to_value(&v))).unwrap_or(None);
            let tj2 = guarded(|| want.clone().to_jmespath().ok().map(|v| var_to_value(&v))).unwrap_or(None);
            let tf = Variable::try_from(want).ok().map(|v| var_to_value(&v));
            let tfo = Variable::try_from(want.clone()).ok().map(|v| var_to_value(&v));
            let de = serde_json::from_value::<Variable>(want.clone()).ok().map(|v| var_to_value(&v));
            let back: Option<Value> = serde_json::from_value::<Value>(serde_json::to_value(&*rc).unwrap_or(Value::Null)).ok();
            let via_deser: Option<Value> = guarded(|| <Value as serde::Deserialize>::deserialize((*rc).clone()).ok()).unwrap_or(None);
            let all = [
                ("search(@)", Some(val)), ("print+serde_json", re), ("print+from_json", re2), ("Serialize", ser),
                ("(&Value).to_jmespath", tj), ("Value.to_jmespath", tj2), ("TryFrom<&Value>", tf), ("TryFrom<Value>", tfo),
                ("Deserialize", de), ("to_value/from_value", back), ("Value::deserialize(Variable)", via_deser),
            ];
            for (name, v) in all {
                if v.as_ref() != Some(want) {
                    st.violate(viol("C08/document", "documents", text, want.to_string(), format!("{}: {:?}", name, v)));
                    return;
                }
            }
            st.nontrivial += 1;
            st.outcome("document preserved");
            st.sample(|| json!({"text": text}));
        }
        Ok(Err(e)) => st.violate(viol("C08/valid-json-rejected", "documents", text, want.to_string(), e)),
        Err(m) => st.violate(viol("C08/panic", "documents", text, want.to_string(), m)),
    }
}

fn duplicate_key_texts() -> Vec<(String, Value)> {
    vec![
        ("{\"a\":1,\"a\":2}".into(), json!({"a": 2})),
        ("{\"a\":1,\"b\":2,\"a\":3}".into(), json!({"a": 3, "b": 2})),
        ("{\"a\":{\"b\":1,\"b\":2},\"a\":{\"b\":3,\"b\":4}}".into(), json!({"a": {"b": 4}})),
        ("[{\"a\":1,\"a\":null}]".into(), json!([{"a": null}])),
        ("{\"a\":[1],\"a\":[]}".into(), json!({"a": []})),
        ("{\"\\u0061\":1,\"a\":2}".into(), json!({"a": 2})),
        ("{\"b\":1,\"a\":2,\"b\":3,\"a\":4}".into(), json!({"a": 4, "b": 3})),
        (" { \"a\" : 1 , \"a\" : [ 1 , 2 ] } ".into(), json!({"a": [1, 2]})),
        // the later value differs from the earlier one only in spelling / in the last digit
        ("{\"a\":1,\"a\":1.0}".into(), json!({"a": 1.0})),
        ("{\"a\":1.0,\"a\":1}".into(), json!({"a": 1})),
        ("{\"k\":9007199254740992,\"k\":9007199254740993}".into(), json!({"k": 9007199254740993u64})),
        ("{\"k\":0.71,\"k\":0.7100000000000002}".into(), json!({"k": 0.7100000000000002})),
        ("{\"k\":[1],\"k\":[1.0]}".into(), json!({"k": [1.0]})),
        ("{\"k\":{\"x\":18446744073709551615},\"k\":{\"x\":18446744073709551614}}".into(), json!({"k": {"x": 18446744073709551614u64}})),
        ("[{\"a\":0,\"a\":-0.0}]".into(), json!([{"a": -0.0}])),
    ]
}

/// size ladder: objects of n members in several key orders with one key repeated (last one wins), long arrays,
/// long strings.  The permutations are a fixed, deterministic family (Fisher-Yates driven by an LCG with listed
/// seeds), not a random sample: every run enumerates the same documents.
fn size_ladder(tier: Tier) -> Vec<(String, Value)> {
    fn perm(n: usize, seed: u64) -> Vec<usize> {
        let mut v: Vec<usize> = (0..n).collect();
        match seed {
            0 => {}
            1 => v.reverse(),
            _ => {
                let mut x = seed.wrapping_mul(0x9E37_79B9_7F4A_7C15) | 1;
                for i in (1..n).rev() {
                    x = x.wrapping_mul(6364136223846793005).wrapping_add(1442695040888963407);
                    let j = (x >> 33) as usize % (i + 1);
                    v.swap(i, j);
                }
            }
        }
        v
    }
    let mut out = Vec::new();
    let sizes: Vec<usize> = tier.pick(vec![2, 3, 8, 20, 21, 32, 33, 34, 48, 64, 100, 257], vec![2, 3, 5, 8, 16, 20, 21, 22, 31, 32, 33, 34, 40, 48, 63, 64, 65, 100, 128, 257, 1000, 4099]);
    let seeds: Vec<u64> = tier.pick((0..8).collect(), (0..16).collect());
    for &n in &sizes {
        for &seed in &seeds {
            let order = perm(n, seed);
            // positions (in text order) of the first and the second occurrence of the repeated key
            let mut pairs = vec![(0, n - 1), (0, 1), (n - 2, n - 1), (n / 2, n / 2 + 1).min((n - 2, n - 1)), (1.min(n - 2), n - 1), (n / 3, 2 * n / 3 + 1).min((n - 2, n - 1))];
            pairs.retain(|(i, j)| i < j && *j < n);
            pairs.sort();
            pairs.dedup();
            for (i, j) in pairs {
                // member at text position j re-uses the key of position i
                let mut text = String::from("{");
                let mut want = serde_json::Map::new();
                for (pos, &k) in order.iter().enumerate() {
                    let key = if pos == j { format!("k{:04}", order[i]) } else { format!("k{:04}", k) };
                    let val = json!(pos);
                    if pos > 0 {
                        text.push(',');
                    }
                    text.push_str(&format!("{}:{}", serde_json::to_string(&key).unwrap(), val));
                    want.insert(key, val);
                }
                text.push('}');
                out.push((text, Value::Object(want)));
            }
        }
        // no duplicate at all, every order
        for &seed in &seeds {
            let order = perm(n, seed);
            let members: Vec<String> = order.iter().map(|k| format!("\"k{:04}\":{}", k, k)).collect();
            let want: serde_json::Map<String, Value> = order.iter().map(|k| (format!("k{:04}", k), json!(k))).collect();
            out.push((format!("{{{}}}", members.join(",")), Value::Object(want)));
        }
    }
    for &n in &tier.pick(vec![31usize, 32, 33, 64, 65, 257, 1025, 65537], vec![31, 32, 33, 63, 64, 65, 100, 255, 256, 257, 1023, 1024, 1025, 4097, 65535, 65536, 65537, 131073]) {
        let arr: Vec<Value> = (0..n).map(|i| match i % 5 { 0 => json!(i), 1 => json!(i as f64 + 0.5), 2 => json!(format!("s{}", i)), 3 => json!(null), _ => json!([i]) }).collect();
        let v = Value::Array(arr);
        out.push((serde_json::to_string(&v).unwrap(), v));
        let sv = json!("a\u{e9}\u{1F600}".repeat(n / 3 + 1));
        out.push((serde_json::to_string(&sv).unwrap(), sv));
        let same: Vec<Value> = (0..n).map(|i| json!((i % 3) as u64 + 9007199254740992u64)).collect();
        let v = Value::Array(same);
        out.push((serde_json::to_string(&v).unwrap(), v));
    }
    out
}

pub fn run(tier: Tier) -> i32 {
    let mut rep = Report::new("C08", tier);
    let nums = numerals(tier);
    let mut st = par_sweep(nums.chunks(256).map(|c| c.to_vec()).collect(), |chunk: &Vec<String>, st| {
        for t in chunk {
            st.states += 1;
            st.transitions += 1;
            check_numeral(t, st);
        }
    });
    st.count("numerals", nums.len() as u64);
    let k = tier.pick(4, 5);
    let mut s0 = Stats::default();
    char_dfs(STR_CHARS, "", 0, 1, &mut s0, &mut |s, st| check_string(s, st));
    st = st.merge(s0);
    let ss = par_sweep(char_shards(STR_CHARS, 2), |p, st| {
        char_dfs(STR_CHARS, p, 2, k, st, &mut |s, st| check_string(s, st));
    });
    st = st.merge(ss);
    check_malformed(&mut st);
    let mut docs = crate::enumr::pool_full();
    docs.extend(crate::enumr::docs_d22_reduced());
    let docs = crate::enumr::dedup(docs);
    let sd = par_sweep(docs.chunks(64).map(|c| c.to_vec()).collect(), |chunk: &Vec<Value>, st| {
        for d in chunk {
            st.states += 1;
            st.transitions += 1;
            check_document_text(&serde_json::to_string(d).unwrap(), d, st);
            check_document_text(&serde_json::to_string_pretty(d).unwrap(), d, st);
        }
    });
    st = st.merge(sd);
    for (t, w) in duplicate_key_texts() {
        st.states += 1;
        st.transitions += 1;
        check_document_text(&t, &w, &mut st);
    }
    // neighbours that differ only in the spelling or the last digit of a number (as scalars and inside
    // containers), and member names that look like numbers / keywords
    for d in crate::enumr::neighbour_docs() {
        st.states += 1;
        st.transitions += 1;
        check_document_text(&serde_json::to_string(&d).unwrap(), &d, &mut st);
    }
    // nesting ladder: "arbitrary nesting" -- the smallest depth at which a valid document is rejected is part of
    // the violation key, so that a lower limit than the recorded one is a new violation
    for (kind, open, close, leaf) in [("array", "[", "]", "1"), ("object", "{\"a\":", "}", "1"), ("mixed", "[{\"a\":", "}]", "null")] {
        let mut first_rejected: Option<(usize, String)> = None;
        for depth in [1usize, 8, 32, 63, 64, 65, 100, 120, 126, 127, 128, 129, 130, 200, 500, 1000] {
            let n = if kind == "mixed" { depth / 2 } else { depth };
            let text = format!("{}{}{}", open.repeat(n), leaf, close.repeat(n));
            st.states += 1;
            st.transitions += 1;
            st.evaluations += 1;
            st.validated += 1;
            match guarded(|| Variable::from_json(&text).map(|v| v.to_string())) {
                Ok(Ok(printed)) => {
                    // compact printing of these documents is the text itself
                    if printed != text {
                        st.violate(viol("C08/document", "nesting-ladder", &crate::engine::trunc(&text, 80), text.clone(), printed));
                    } else {
                        st.nontrivial += 1;
                        st.outcome("nested document preserved");
                        // a text the reader accepts goes through every conversion path like any other document
                        if let Ok(want) = serde_json::from_str::<Value>(&text) {
                            check_document_text(&text, &want, &mut st);
                        }
                    }
                }
                Ok(Err(e)) => {
                    if first_rejected.is_none() {
                        first_rejected = Some((depth, e));
                    }
                }
                Err(m) => st.violate(viol("C08/panic", "nesting-ladder", &crate::engine::trunc(&text, 80), "a value".into(), m)),
            }
        }
        // the same shapes built in memory (no JSON text, so no reader limit) through the conversion paths that
        // take a value: identity search of the library value, Serialize, the three ways in for a serde_json::Value,
        // Deserialize, and the Variable used as a serde Deserializer
        for depth in [1usize, 64, 126, 127, 128, 129, 130, 200, 256, 257, 500] {
            check_nested_in_memory(kind, depth, &mut st);
        }
        if let Some((d, why)) = first_rejected {
            st.violate(viol(&format!("C08/nesting-depth-limit/{}/rejected-from-{}", kind, d), "nesting-ladder", &format!("{} nested {} levels", kind, d), "parses (valid JSON at any nesting depth)".into(), why));
        }
    }
    let ladder = size_ladder(tier);
    st.count("size_ladder_documents", ladder.len() as u64);
    let sl = par_sweep(ladder.chunks(8).map(|c| c.to_vec()).collect(), |chunk: &Vec<(String, Value)>, st| {
        for (t, w) in chunk {
            st.states += 1;
            st.transitions += 1;
            // the expectation was built by hand (last duplicate wins); serde_json must read the text the same way
            if serde_json::from_str::<Value>(t).ok().as_ref() != Some(w) {
                st.count("MODEL_ERROR_ladder_expectation", 1);
                continue;
            }
            check_document_text(t, w, st);
        }
    });
    st = st.merge(sl);
    let model_err: u64 = st.counters.iter().filter(|(k, _)| k.starts_with("MODEL_ERROR")).map(|(_, v)| *v).sum();
    rep.guard("reference spellings decode to the intended strings", model_err == 0);
    rep.guard("integers, exact-class floats and loose-class floats all occur", ["integer", "exact-class float", "loose-class float"].iter().all(|k| st.outcomes.get(*k).cloned().unwrap_or(0) > 50));
    rep.rule = "every numeral of the enumerated families (small integers, +-2^p and neighbours for p<=64, range limits, decimals with <= 4 significant digits x exponents, 15/17-digit representatives), every string up to the bound over {a \" \\ / e-acute emoji U+0001 U+2028} in three spellings (bare, in an array, as key and value), malformed texts, D(2,2) documents compact and pretty, duplicate keys; each through from_json -> search('@') -> print -> re-parse and through every Value conversion. non-trivial = value accepted and compared Size ladder: objects of 2..257 (thorough ..4099) members in 8 (16) fixed key orders with one repeated key at 6 position pairs (last wins) and without, arrays / strings / equal-looking big integers of 31..65537 (131073) elements. Neighbour documents: adjacent scalars / containers that differ only in the spelling or last digit of a number, duplicate keys whose values differ that way, member names that look like numbers, keywords or serde_json's private tokens.".into();
    rep.bounds = json!({"string_len": k, "numerals": nums.len(), "documents": docs.len()});
    rep.assumptions = vec![
        "serde_json::from_str::<Value> and Rust's str::parse::<f64> are the independent readings of a JSON text (trusted base)".into(),
        "'-0' is read as the double -0.0 (serde_json's documented behaviour)".into(),
    ];
    rep.stats = st;
    rep.finish()
}

pub fn replay(case: &Value) -> Option<(String, bool)> {
    let t = case["text"].as_str()?;
    let mut st = Stats::default();
    match case["sub"].as_str()? {
        "numerals" => check_numeral(t, &mut st),
        "nesting-ladder" if t.contains("built in memory") => {
            let mut it = t.split(' ');
            let kind = it.next()?.to_string();
            let d: usize = it.nth(1)?.trim_end_matches(',').parse().ok()?;
            check_nested_in_memory(&kind, d, &mut st);
        }
        "nesting-ladder" => {
            // "<kind> nested <d> levels"
            let mut it = t.split(' ');
            let kind = it.next()?;
            let d: usize = it.nth(1)?.parse().ok()?;
            let (open, close, leaf, n) = match kind {
                "array" => ("[", "]", "1", d),
                "object" => ("{\"a\":", "}", "1", d),
                _ => ("[{\"a\":", "}]", "null", d / 2),
            };
            let text = format!("{}{}{}", open.repeat(n), leaf, close.repeat(n));
            return Some(match guarded(|| Variable::from_json(&text).map(|v| v.to_string())) {
                Ok(Ok(p)) if p == text => ("parses and prints back".into(), false),
                other => (format!("{:?}", other.map(|r| r.map(|_| "a different text".to_string()))), true),
            });
        }
        _ => {
            if let Ok(w) = serde_json::from_str::<Value>(t) {
                check_document_text(t, &w, &mut st)
            } else {
                match guarded(|| Variable::from_json(t)) {
                    Ok(Err(_)) => {}
                    other => st.violate(viol("C08/malformed-accepted", "malformed", t, "error".into(), format!("{:?}", other.map(|r| r.is_ok())))),
                }
            }
        }
    }
    Some(match st.violations.first() {
        Some(v) => (format!("{}: expected {} actual {}", v.key, v.expected, v.actual), true),
        None => ("preserved".into(), false),
    })
}
