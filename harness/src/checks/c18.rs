//! C18 -- the jp command-line tool reports exactly what the library computes.
use crate::engine::{Report, Stats, Tier, Violation};
use jmespath::Variable;
use rayon::prelude::*;
use serde_json::{json, Value};
use std::io::Write;
use std::process::{Command, Stdio};
use std::rc::Rc;

pub fn expressions(tier: Tier) -> Vec<String> {
    let mut v: Vec<String> = [
        "@", "a", "a.b", "a[0]", "a[*].b", "length(@)", "keys(@)", "'é😀'", "`18446744073709551615`", "`1.5e300`", "to_string(@)",
        "a || b", "a[?b > `1`]", "*", "[a, b]", "{x: a}", "\"é\"", "sum(a)", "abs('x')", "nosuch(@)", "length(@, @)", "a[::0]", "a[",
        "", "a b", "`{`", "\"unterminated", "a.\n b", "'\n'", "type(@)", "@ == @", "`null`", "`\"\"`", "b", "'<\\'>'", "`\"\\u0000\\u2028\"`",
        "'x\r\ny'", "join('\r\n', keys(@))", "'\r'", "a\r\n.\r\nb",
        // Unicode white space that is not JMESPath white space, trailing and leading (an expression file is taken as it is)
        // results that are expression references (printed as JSON strings; not strings for --unquoted)
        "&a", "&@", "a && &a", "[&a]",
        "@\u{a0}", "a\u{2028}", "a\u{b}", "a \u{3000}", "a\u{85}\n", "\u{a0}a", "a\u{c}", "'x\n'", "join('', ['l1\n', 'l2\n'])",
    ]
    .iter()
    .map(|s| s.to_string())
    .collect();
    if tier == Tier::Thorough {
        for s in ["a.b.c", "a[-1]", "a[1:]", "a[].b", "max_by(a, &b)", "sort(a)", "join(', ', a)", "`[1, 2.50, -0.0, 1e2]`", "a | [0]", "!a", "a && b", "`{\"k\": {\"k\": [1, {\"k\": null}]}}`", "  @  ", "\t\n@", "é", "a..b", "[ ]", "a[*][b]", "-"] {
            v.push(s.to_string());
        }
    }
    v
}

/// long failing expressions: the diagnosis echoes the expression (truncation limits live here)
pub fn long_expressions() -> Vec<String> {
    let mut v = Vec::new();
    for n in [400usize, 511, 512, 700, 1023, 1024, 1025, 2000, 4096, 5000] {
        for pad in 0..2 {
            v.push(format!("{}'{}' {{", " ".repeat(pad), "é".repeat(n)));
            v.push(format!("{}abs('{}')", " ".repeat(pad), "é".repeat(n)));
            v.push(format!("{}length('{}')", " ".repeat(pad), "é".repeat(n)));
        }
    }
    v
}

/// inputs that only need a few expressions: invalid UTF-8 inside string tokens, strings whose last line is long
pub fn special_inputs() -> Vec<Vec<u8>> {
    let mut v: Vec<Vec<u8>> = Vec::new();
    // invalid UTF-8 *inside* string tokens (a value, a member name), a truncated sequence, an encoded surrogate
    v.push(b"\"caf\xff\"".to_vec());
    v.push(b"{\"k\xfe\": 1}".to_vec());
    v.push(b"{\"a\": \"\xc3\"}".to_vec());
    v.push(b"[\"\xed\xa0\x80\"]".to_vec());
    // a string whose last line is longer than any stdio line buffer (head, newline, long tail)
    for tail in [1023usize, 1024, 1025, 5000] {
        v.push(format!("\"head\\n{}\"", "x".repeat(tail)).into_bytes());
        v.push(format!("{{\"a\": [\"l1\\nl2\\n{}\", \"\\n\"]}}", "y".repeat(tail)).into_bytes());
    }
    v
}

/// invalid JSON texts of 60..260 bytes made of multi-byte characters at every alignment (a diagnosis that quotes
/// a prefix of the input cuts somewhere in there)
pub fn long_invalid_inputs() -> Vec<Vec<u8>> {
    let mut v = Vec::new();
    for fill in ["\u{e9}", "\u{20ac}", "\u{1F600}"] {
        for pad in 0..4 {
            for n in [20usize, 30, 40, 64, 100] {
                v.push(format!("{}{{\"a\": \"{}", " ".repeat(pad), fill.repeat(n)).into_bytes());
                v.push(format!("{}[\"{}\", oops]", " ".repeat(pad), fill.repeat(n)).into_bytes());
            }
        }
    }
    v
}

/// documents larger than any plausible read block, filled with multi-byte characters at every alignment: a
/// reader that decodes block by block splits a character at each block boundary
pub fn large_inputs() -> Vec<Vec<u8>> {
    let mut v = Vec::new();
    for (fill, n) in [("\u{e9}", 100_000usize), ("\u{20ac}", 70_000), ("\u{1F600}", 50_000)] {
        for pad in 0..4 {
            v.push(format!("{}\"{}\"", " ".repeat(pad), fill.repeat(n)).into_bytes());
        }
    }
    v.push(format!("[{}]", vec!["\"\u{e9}\u{20ac}\u{1F600}\""; 30_000].join(",")).into_bytes());
    v
}

pub fn inputs(tier: Tier) -> Vec<Vec<u8>> {
    let mut v: Vec<Vec<u8>> = [
        "null", "1", "\"s\"", "\"é😀\"", "[]", "{}", "{\"a\": {\"b\": 1}}", "{\"a\":[{\"b\":1},{\"b\":2}],\"b\":\"x\"}", "{\"a\":[1,2,3]}",
        "18446744073709551615", "1e400", " {\"a\" : 1 } \n", "{\"a\":1,\"a\":2}", "\"\\ud83d\\ude00\"", "", "{", "{\"a\":1} x", "[1,]", "nul",
    ]
    .iter()
    .map(|s| s.as_bytes().to_vec())
    .collect();
    v.push(vec![0xff, 0xfe, b'1']);
    if tier == Tier::Thorough {
        for s in ["{\"a\":\"x\",\"b\":\"\"}", "{\"a\":[\"p\",\"q\"]}", "[[1,[2]],{\"a\":[]}]", "1.0", "-0", "\"\\u0000\"", "{\"a\":{\"b\":{\"c\":[1.5,true,null]}}}", "\u{feff}{}", "[1] [2]", "'a'"] {
            v.push(s.as_bytes().to_vec());
        }
    }
    v
}

#[derive(Clone, Copy, Debug, PartialEq)]
pub enum ExprSrc {
    Arg,
    File,
    MissingFile,
}
#[derive(Clone, Copy, Debug, PartialEq)]
pub enum InSrc {
    Stdin,
    File,
    MissingFile,
    Directory,
    /// `-f /dev/stdin` with the document piped in (a readable non-regular file)
    DevStdin,
    /// `-f` naming a FIFO that another thread writes the document to
    Fifo,
}

#[derive(Clone, Debug)]
pub struct Case {
    pub expr: String,
    pub input: Vec<u8>,
    pub es: ExprSrc,
    pub is: InSrc,
    pub unquoted: bool,
    pub ast: bool,
}

#[derive(Debug, PartialEq)]
pub enum Expect {
    /// exit 0 and exactly this stdout
    Success(Vec<u8>),
    /// non-zero exit, empty stdout, non-empty stderr, no panic
    Failure(&'static str),
    /// the expression cannot be passed on a command line at all
    Skip,
}

/// the library called in-process on the same bytes
pub fn expectation(c: &Case) -> Expect {
    if c.es == ExprSrc::MissingFile {
        return Expect::Failure("unreadable expression file");
    }
    if c.es == ExprSrc::Arg && (c.expr.starts_with('-') || c.expr.contains('\0')) {
        return Expect::Skip;
    }
    let expr = match jmespath::compile(&c.expr) {
        Ok(e) => e,
        Err(_) => return Expect::Failure("bad expression"),
    };
    if c.ast {
        return Expect::Success(format!("{:#?}\n", expr.as_ast()).into_bytes());
    }
    match c.is {
        InSrc::MissingFile | InSrc::Directory => return Expect::Failure("unreadable input file"),
        InSrc::Stdin | InSrc::File | InSrc::DevStdin | InSrc::Fifo => {}
    }
    let text = match String::from_utf8(c.input.clone()) {
        Ok(t) => t,
        Err(_) => return Expect::Failure("input is not UTF-8"),
    };
    let var = match Variable::from_json(&text) {
        Ok(v) => v,
        Err(_) => return Expect::Failure("bad JSON"),
    };
    let data = Rc::new(var);
    match expr.search(&data) {
        Err(_) => Expect::Failure("runtime error"),
        Ok(r) => {
            if c.unquoted && r.is_string() {
                Expect::Success(format!("{}\n", r.as_string().unwrap()).into_bytes())
            } else {
                let mut out = serde_json::to_vec_pretty(&r).unwrap();
                out.push(b'\n');
                Expect::Success(out)
            }
        }
    }
}

pub struct RunOut {
    pub code: Option<i32>,
    pub stdout: Vec<u8>,
    pub stderr: Vec<u8>,
    /// still running at the horizon and killed by the harness
    pub timed_out: bool,
}

/// no jp run of the enumerated cases takes more than a fraction of a second; one that is still running after this
/// many seconds is waiting for input that will never come (or looping)
pub const JP_HORIZON_SECS: u64 = 10;
/// hangs seen so far in this run: after a few, the remaining cases get a shorter horizon (the verdict is in already)
static HANGS: std::sync::atomic::AtomicUsize = std::sync::atomic::AtomicUsize::new(0);

pub fn run_jp(jp: &str, c: &Case, dir: &std::path::Path, id: usize) -> RunOut {
    use std::os::unix::fs::OpenOptionsExt;
    let reads_input = !c.ast && c.es != ExprSrc::MissingFile && jmespath::compile(&c.expr).is_ok();
    let ef = dir.join(format!("e{}", id));
    let inf = dir.join(format!("i{}", id));
    let mut cmd = Command::new(jp);
    match c.es {
        ExprSrc::Arg => {}
        ExprSrc::File => {
            std::fs::write(&ef, c.expr.as_bytes()).unwrap();
            cmd.arg("-e").arg(&ef);
        }
        ExprSrc::MissingFile => {
            cmd.arg("-e").arg(dir.join("no-such-expression-file"));
        }
    }
    match c.is {
        InSrc::Stdin => {}
        InSrc::File => {
            std::fs::write(&inf, &c.input).unwrap();
            cmd.arg("-f").arg(&inf);
        }
        InSrc::MissingFile => {
            cmd.arg("-f").arg(dir.join("no-such-input-file"));
        }
        InSrc::Directory => {
            cmd.arg("-f").arg(dir);
        }
        InSrc::DevStdin => {
            cmd.arg("-f").arg("/dev/stdin");
        }
        InSrc::Fifo => {
            let c = std::ffi::CString::new(inf.to_str().unwrap()).unwrap();
            unsafe {
                libc::mkfifo(c.as_ptr(), 0o600);
            }
            cmd.arg("-f").arg(&inf);
        }
    }
    if c.unquoted {
        cmd.arg("-u");
    }
    if c.ast {
        cmd.arg("--ast");
    }
    if c.es == ExprSrc::Arg {
        cmd.arg(&c.expr);
    }
    cmd.stdin(Stdio::piped()).stdout(Stdio::piped()).stderr(Stdio::piped());
    let mut child = cmd.spawn().expect("spawn jp");
    // a jp that waits for input nobody provides (or spins) must not hang the check: kill it after the horizon
    let pid = child.id() as i32;
    let done = std::sync::Arc::new(std::sync::atomic::AtomicBool::new(false));
    let killed = std::sync::Arc::new(std::sync::atomic::AtomicBool::new(false));
    {
        let (done, killed) = (done.clone(), killed.clone());
        std::thread::spawn(move || {
            let t0 = std::time::Instant::now();
            let horizon = if HANGS.load(std::sync::atomic::Ordering::SeqCst) >= 4 { 2 } else { JP_HORIZON_SECS };
            while t0.elapsed() < std::time::Duration::from_secs(horizon) {
                std::thread::sleep(std::time::Duration::from_millis(20));
                if done.load(std::sync::atomic::Ordering::SeqCst) {
                    return;
                }
            }
            killed.store(true, std::sync::atomic::Ordering::SeqCst);
            HANGS.fetch_add(1, std::sync::atomic::Ordering::SeqCst);
            unsafe {
                libc::kill(pid, libc::SIGKILL);
            }
        });
    }
    let fifo_writer = if c.is == InSrc::Fifo && reads_input {
        // feed the FIFO from another thread; open non-blocking first so that a jp which never opens it cannot hang us
        let path = inf.clone();
        let data = c.input.clone();
        Some(std::thread::spawn(move || {
            use std::os::unix::fs::OpenOptionsExt;
            for _ in 0..400 {
                match std::fs::OpenOptions::new().write(true).custom_flags(libc::O_NONBLOCK).open(&path) {
                    Ok(mut f) => {
                        // the reader is there: back to blocking writes (a document larger than the pipe buffer
                        // would otherwise be cut short with EAGAIN); a reader that exits early gives EPIPE
                        {
                            use std::os::unix::io::AsRawFd;
                            let fd = f.as_raw_fd();
                            unsafe {
                                let fl = libc::fcntl(fd, libc::F_GETFL);
                                libc::fcntl(fd, libc::F_SETFL, fl & !libc::O_NONBLOCK);
                            }
                        }
                        let _ = f.write_all(&data);
                        return;
                    }
                    Err(_) => std::thread::sleep(std::time::Duration::from_millis(5)),
                }
            }
        }))
    } else {
        None
    };
    {
        let mut si = child.stdin.take().unwrap();
        if c.is == InSrc::Stdin || c.is == InSrc::DevStdin {
            let _ = si.write_all(&c.input);
        }
    }
    let o = child.wait_with_output().expect("wait jp");
    done.store(true, std::sync::atomic::Ordering::SeqCst);
    let timed_out = killed.load(std::sync::atomic::Ordering::SeqCst);
    if timed_out && c.is == InSrc::Fifo {
        // release a writer thread still waiting for a reader
        let _ = std::fs::OpenOptions::new().read(true).custom_flags(libc::O_NONBLOCK).open(&inf);
    }
    if let Some(h) = fifo_writer {
        let _ = h.join();
    }
    std::fs::remove_file(&ef).ok();
    std::fs::remove_file(&inf).ok();
    RunOut { code: o.status.code(), stdout: o.stdout, stderr: o.stderr, timed_out }
}

pub fn judge(c: &Case, exp: &Expect, o: &RunOut) -> Option<(String, String, String)> {
    let err = String::from_utf8_lossy(&o.stderr).to_string();
    let show = |o: &RunOut| format!("exit {:?} stdout {:?} stderr {:?}", o.code, String::from_utf8_lossy(&o.stdout), crate::engine::trunc(&err, 200));
    if o.timed_out {
        return Some(("C18/hang".into(), format!("terminates (expected: {:?})", match exp { Expect::Success(_) => "success", Expect::Failure(w) => w, Expect::Skip => "skip" }), "still running at the horizon (killed by the harness)".to_string()));
    }
    if o.code == Some(101) || o.code.is_none() || err.contains("panicked") {
        return Some(("C18/panic".into(), "never panics".into(), show(o)));
    }
    match exp {
        Expect::Skip => None,
        Expect::Success(want) => {
            if o.code == Some(0) && &o.stdout == want {
                None
            } else {
                let key = if c.ast { "C18/ast" } else if c.unquoted { "C18/success-output/unquoted" } else { "C18/success-output" };
                Some((key.into(), format!("exit 0 stdout {:?}", String::from_utf8_lossy(want)), show(o)))
            }
        }
        Expect::Failure(why) => {
            if o.code != Some(0) && o.stdout.is_empty() && !o.stderr.is_empty() {
                None
            } else {
                Some((format!("C18/failure-discipline/{}", why.replace(' ', "-")), format!("non-zero exit, empty stdout, diagnosis on stderr ({})", why), show(o)))
            }
        }
    }
}

fn case_json(c: &Case) -> Value {
    json!({"kind": "cli", "expression": c.expr, "input": String::from_utf8_lossy(&c.input), "input_bytes": c.input, "expr_source": format!("{:?}", c.es), "input_source": format!("{:?}", c.is), "unquoted": c.unquoted, "ast": c.ast})
}

pub fn run(tier: Tier) -> i32 {
    let mut rep = Report::new("C18", tier);
    let jp = std::env::var("JP_BIN").unwrap_or_else(|_| format!("{}/target/cli/release/jp", crate::engine::verif_root()));
    if !std::path::Path::new(&jp).exists() {
        eprintln!("MACHINERY: jp binary not found at {}", jp);
        return 2;
    }
    let dir = std::path::PathBuf::from(format!("{}/target/cli-tmp-{}", crate::engine::verif_root(), std::process::id()));
    std::fs::create_dir_all(&dir).unwrap();
    let mut cases = Vec::new();
    for e in expressions(tier) {
        for i in inputs(tier) {
            for es in [ExprSrc::Arg, ExprSrc::File, ExprSrc::MissingFile] {
                for is in [InSrc::Stdin, InSrc::File, InSrc::MissingFile, InSrc::Directory] {
                    for unquoted in [false, true] {
                        for ast in [false, true] {
                            cases.push(Case { expr: e.clone(), input: i.clone(), es, is, unquoted, ast });
                        }
                    }
                }
            }
        }
    }
    // non-regular input files (a FIFO, /dev/stdin): every expression x input, without --ast
    for e in expressions(tier) {
        for i in inputs(tier) {
            for es in [ExprSrc::Arg, ExprSrc::File] {
                for is in [InSrc::DevStdin, InSrc::Fifo] {
                    cases.push(Case { expr: e.clone(), input: i.clone(), es, is, unquoted: false, ast: false });
                }
            }
        }
    }
    // long expressions on a few inputs through both expression sources
    for e in long_expressions() {
        for i in [b"null".to_vec(), b"{\"a\":1}".to_vec(), b"{".to_vec()] {
            for es in [ExprSrc::Arg, ExprSrc::File] {
                for is in [InSrc::Stdin, InSrc::File] {
                    for unquoted in [false, true] {
                        cases.push(Case { expr: e.clone(), input: i.clone(), es, is, unquoted, ast: false });
                    }
                }
            }
        }
    }
    for i in special_inputs() {
        for e in ["@", "a", "a[0]", "length(@)"] {
            for es in [ExprSrc::Arg, ExprSrc::File] {
                for is in [InSrc::Stdin, InSrc::File] {
                    for unquoted in [false, true] {
                        cases.push(Case { expr: e.to_string(), input: i.clone(), es, is, unquoted, ast: false });
                    }
                }
            }
        }
    }
    // long invalid inputs through stdin and -f
    for i in long_invalid_inputs() {
        for is in [InSrc::Stdin, InSrc::File] {
            cases.push(Case { expr: "@".to_string(), input: i.clone(), es: ExprSrc::Arg, is, unquoted: false, ast: false });
        }
    }
    // large inputs through every input source
    for i in large_inputs() {
        for e in ["length(@)", "@"] {
            for is in [InSrc::Stdin, InSrc::File, InSrc::DevStdin, InSrc::Fifo] {
                cases.push(Case { expr: e.to_string(), input: i.clone(), es: ExprSrc::Arg, is, unquoted: e == "@", ast: false });
            }
        }
    }
    let results: Vec<(usize, Expect, Option<(String, String, String)>)> = cases
        .par_iter()
        .enumerate()
        .map(|(id, c)| {
            let exp = expectation(c);
            if exp == Expect::Skip {
                return (id, exp, None);
            }
            let o = run_jp(&jp, c, &dir, id);
            let j = judge(c, &exp, &o);
            (id, exp, j)
        })
        .collect();
    std::fs::remove_dir_all(&dir).ok();
    let mut st = Stats::default();
    for (id, exp, j) in results {
        st.states += 1;
        st.transitions += 1;
        st.evaluations += 1;
        if exp != Expect::Skip {
            st.validated += 1;
        }
        match &exp {
            Expect::Success(_) => {
                st.nontrivial += 1;
                st.outcome(if cases[id].ast { "success: ast" } else if cases[id].unquoted { "success: unquoted" } else { "success: value" })
            }
            Expect::Failure(w) => st.outcome(&format!("failure: {}", w)),
            Expect::Skip => st.outcome("not expressible on a command line"),
        }
        if let Some((key, want, got)) = j {
            st.violate(Violation { key, check: "cli".into(), case: case_json(&cases[id]), expected: want, actual: got });
        } else if id % 3001 == 17 && cases[id].input.len() < 4096 {
            st.sample(|| case_json(&cases[id]));
        }
    }
    // expression files that are not valid UTF-8, the bad bytes inside a raw string, inside a quoted identifier and
    // outside any token: the library cannot even be given such an expression, jp must refuse it
    {
        let dir2 = std::path::PathBuf::from(format!("{}/target/cli-tmp-e-{}", crate::engine::verif_root(), std::process::id()));
        std::fs::create_dir_all(&dir2).unwrap();
        for (i, bytes) in [b"'caf\xff'".to_vec(), b"\"k\xfe\"".to_vec(), b"a \xff".to_vec(), b"'\xc3'".to_vec(), b"`\"\xed\xa0\x80\"`".to_vec()].iter().enumerate() {
            let f = dir2.join(format!("e{}", i));
            std::fs::write(&f, bytes).unwrap();
            st.states += 1;
            st.evaluations += 1;
            st.validated += 1;
            let o = Command::new(&jp).arg("-e").arg(&f).stdin(Stdio::piped()).stdout(Stdio::piped()).stderr(Stdio::piped()).spawn().and_then(|mut c| {
                let _ = c.stdin.take().unwrap().write_all(b"{\"a\": 1}");
                c.wait_with_output()
            }).unwrap();
            if o.status.code() == Some(0) || o.status.code() == Some(101) || o.status.code().is_none() || !o.stdout.is_empty() || o.stderr.is_empty() {
                st.violate(Violation { key: "C18/failure-discipline/expression-file-not-utf8".into(), check: "cli".into(), case: json!({"kind": "expr-file-bytes", "bytes": bytes}), expected: "non-zero exit, empty stdout, diagnosis on stderr".into(), actual: format!("exit {:?} stdout {:?} stderr {:?}", o.status.code(), String::from_utf8_lossy(&o.stdout), String::from_utf8_lossy(&o.stderr)) });
            } else {
                st.outcome("failure: expression file is not UTF-8");
            }
        }
        std::fs::remove_dir_all(&dir2).ok();
    }
    // flag conflicts
    for args in [vec!["-e", "x", "a"], vec![], vec!["--nosuchflag", "a"]] {
        st.states += 1;
        st.evaluations += 1;
        st.validated += 1;
        let o = Command::new(&jp).args(&args).stdin(Stdio::null()).output().unwrap();
        if o.status.code() == Some(0) || o.status.code() == Some(101) || !o.stdout.is_empty() {
            st.violate(Violation { key: "C18/usage-error".into(), check: "cli".into(), case: json!({"kind": "args", "args": args}), expected: "non-zero exit, empty stdout".into(), actual: format!("{:?} {:?}", o.status.code(), String::from_utf8_lossy(&o.stdout)) });
        }
    }
    rep.guard("successes and every failure kind occur", ["success: value", "success: unquoted", "success: ast", "failure: bad expression", "failure: bad JSON", "failure: runtime error", "failure: unreadable input file", "failure: unreadable expression file", "failure: input is not UTF-8"].iter().all(|k| st.outcomes.get(*k).cloned().unwrap_or(0) > 0));
    rep.rule = "the full product expressions x input texts x expression source {argument, -e file, -e missing file} x input source {stdin, -f file, -f missing file, -f directory} x -u x --ast, one jp process each (the unchanged jmespath-cli/src/main.rs built against /repo/jmespath); oracle = the library called in-process on the same bytes: success => exit 0 and stdout = pretty JSON + LF (raw string + LF under -u), --ast => {:#?} of the tree without reading input, any failure => non-zero exit, empty stdout, non-empty stderr, never a panic. non-trivial = a success case whose stdout was compared byte for byte Plus expressions ending / starting in Unicode white space that JMESPath does not skip, strings ending in LF under -u, and 13 documents of 150-300 KB filled with 2-, 3- and 4-byte characters at every alignment through stdin, -f file, -f /dev/stdin and -f FIFO. A jp still running after the horizon (10 s) is killed and reported as C18/hang. Plus: invalid UTF-8 inside string tokens of the input and of expression files, strings whose last line exceeds 1024 bytes under -u, 120 invalid JSON texts of multi-byte characters at every alignment.".into();
    rep.bounds = json!({"expressions": expressions(tier).len(), "inputs": inputs(tier).len(), "process_runs": cases.len()});
    rep.assumptions = vec!["non-UTF-8 argv and write failures on stdout/stderr are outside the stated quantifier".into()];
    rep.stats = st;
    rep.finish()
}

pub fn replay(case: &Value) -> Option<(String, bool)> {
    if case["kind"] != json!("cli") {
        return None;
    }
    let jp = std::env::var("JP_BIN").unwrap_or_else(|_| format!("{}/target/cli/release/jp", crate::engine::verif_root()));
    let c = Case {
        expr: case["expression"].as_str()?.to_string(),
        input: case["input_bytes"].as_array()?.iter().map(|b| b.as_u64().unwrap() as u8).collect(),
        es: match case["expr_source"].as_str()? { "Arg" => ExprSrc::Arg, "File" => ExprSrc::File, _ => ExprSrc::MissingFile },
        is: match case["input_source"].as_str()? { "Stdin" => InSrc::Stdin, "File" => InSrc::File, "MissingFile" => InSrc::MissingFile, "DevStdin" => InSrc::DevStdin, "Fifo" => InSrc::Fifo, _ => InSrc::Directory },
        unquoted: case["unquoted"].as_bool()?,
        ast: case["ast"].as_bool()?,
    };
    let dir = std::path::PathBuf::from(format!("{}/target/cli-tmp-replay-{}", crate::engine::verif_root(), std::process::id()));
    std::fs::create_dir_all(&dir).ok()?;
    let exp = expectation(&c);
    let o = run_jp(&jp, &c, &dir, 0);
    std::fs::remove_dir_all(&dir).ok();
    Some(match judge(&c, &exp, &o) {
        Some((k, w, g)) => (format!("{}: expected {} actual {}", k, w, g), true),
        None => ("jp agrees with the library".into(), false),
    })
}
