//! C04 -- binding powers and projection extent.
use crate::engine::{par_sweep, Report, Stats, Tier, Violation};
use crate::enumr::{sentences, shards, t32};
use crate::gram::{Grammar, Relax};
use crate::implx::{ast_sexp, guarded};
use crate::oracle::{run_impl, Pool};
use crate::rparse::{self, full_paren, parse_with, sexp, Lin, Opts};
use serde_json::{json, Value};

lazy_static::lazy_static! {
    static ref G: Grammar = Grammar::new(Relax::default());
}

thread_local! {
    static POOL: Pool = Pool::new(docs12());
}

pub fn docs12() -> Vec<Value> {
    vec![
        json!(null),
        json!(1),
        json!("a"),
        json!([1, 2]),
        json!([[1, 2], [3]]),
        json!([{"a": 1, "b": 2}, {"a": [1, 2], "b": null}]),
        json!({"a": 1, "b": 2}),
        json!({"a": [1, 2], "b": [0]}),
        json!({"a": {"a": [1], "b": {"a": 2}}, "b": [{"a": 1}, {"b": 2}]}),
        json!({"a": [{"a": [1, 2], "b": 1}, {"a": [3], "b": 0}], "b": true}),
        json!({"a": [[1, 2], [3, [4]]], "b": false}),
        json!({"a": "a", "b": {"q": 1, "a": {"q": [1]}}, "q": {"a": 1, "q": 2}}),
    ]
}

fn viol(key: &str, sub: &str, src: &str, extra: Value, exp: String, act: String) -> Violation {
    Violation {
        key: key.into(),
        check: sub.into(),
        case: json!({"kind": "parse", "expression": src, "extra": extra}),
        expected: exp,
        actual: act,
    }
}

/// all three oracles for one sentence; returns violations
pub fn check_sentence(src: &str, st: &mut Stats) {
    st.states += 1;
    st.evaluations += 1;
    let p = match rparse::parse(src) {
        Ok(p) => p,
        Err(_) => {
            st.count("MODEL_DISAGREEMENT", 1);
            return;
        }
    };
    let want = sexp(&p.tree);
    // (1) public AST == tree defined by the rules
    let got = match guarded(|| jmespath::parse(src)) {
        Ok(Ok(a)) => ast_sexp(&a),
        Ok(Err(e)) => {
            st.violate(viol("C04/sentence-does-not-parse", "tree-shape", src, json!(null), want, format!("{:?}", e.reason)));
            return;
        }
        Err(m) => {
            st.violate(viol("C04/panic", "tree-shape", src, json!(null), want, m));
            return;
        }
    };
    st.validated += 1;
    st.transitions += 1;
    if got != want {
        // the property does not say whether a multi-select after '.' starts a
        // bracket chain; accept the other reading as well
        let alt = parse_with(src, Opts { lin: Lin::FilterAbove, mlist_unit: false, relax: Default::default() })
            .map(|q| sexp(&q.tree))
            .unwrap_or_default();
        if got != alt {
            st.outcome("TREE-MISMATCH");
            st.violate(viol("C04/tree-shape", "tree-shape", src, json!(null), want, got));
            return;
        }
        st.count("accepted_alternative_mlist_reading", 1);
    }
    // (2) the implied fully parenthesised form parses to the same tree and
    // searches to the same results
    let sp = full_paren(src, &p);
    st.transitions += 1;
    let got2 = match guarded(|| jmespath::parse(&sp)) {
        Ok(Ok(a)) => ast_sexp(&a),
        Ok(Err(e)) => format!("parse error: {:?}", e.reason),
        Err(m) => format!("panic: {}", m),
    };
    if got2 != got {
        st.outcome("PAREN-TREE-MISMATCH");
        st.violate(viol("C04/parenthesised-form-tree", "implied-parentheses", src, json!({"parenthesised": sp}), got.clone(), got2));
        return;
    }
    if sp != src {
        st.nontrivial += 1;
    }
    let (e1, e2) = match (guarded(|| jmespath::compile(src)), guarded(|| jmespath::compile(&sp))) {
        (Ok(Ok(a)), Ok(Ok(b))) => (a, b),
        _ => {
            st.violate(viol("C04/compile-after-parse", "implied-parentheses", src, json!({"parenthesised": sp}), "compiles".into(), "does not compile".into()));
            return;
        }
    };
    POOL.with(|pool| {
        for (d, rc) in pool.docs.iter().zip(pool.rcs.iter()) {
            st.transitions += 1;
            let o1 = run_impl(&e1, rc);
            let o2 = run_impl(&e2, rc);
            if o1.sem() != o2.sem() {
                st.outcome("PAREN-SEARCH-MISMATCH");
                st.violate(viol("C04/parenthesised-form-search", "implied-parentheses", src, json!({"parenthesised": sp, "document": d}), o1.brief(), o2.brief()));
                return;
            }
        }
    });
    st.outcome("agree");
    st.sample(|| json!({"sentence": src, "tree": want, "parenthesised": sp}));
}

pub fn run(tier: Tier) -> i32 {
    let mut rep = Report::new("C04", tier);
    crate::engine::start_watchdog("C04", std::time::Duration::from_secs(120));
    let alpha = t32();
    let l = tier.pick(6, 8);
    let mut st = Stats::default();
    for t in 0..alpha.len() {
        let seq = [t as u8];
        let mut cnt = 0;
        sentences(&G, &alpha, &seq, 1, &mut |_| cnt += 1);
        if cnt > 0 {
            check_sentence(&alpha.render(&seq), &mut st);
        }
    }
    let sa = par_sweep(shards(alpha.len(), 2), |p, st| {
        let mut list: Vec<String> = Vec::new();
        let (nodes, edges) = sentences(&G, &alpha, p, l, &mut |seq| list.push(alpha.render(seq)));
        st.count("prefix_tree_nodes", nodes);
        st.count("prefix_tree_edges", edges);
        for s in &list {
            check_sentence(s, st);
        }
    });
    st = st.merge(sa);
    // composed expressions (deeper operator nesting than the sentence bound)
    let e1v = crate::checks::c01::e1();
    let e0v = crate::checks::c01::e0();
    let sb = par_sweep((0..e1v.len()).collect::<Vec<_>>(), |&i, st| {
        let x = &e1v[i];
        let mut run1 = |s: String, st: &mut Stats| {
            if rparse::parse(&s).is_ok() {
                check_sentence(&s, st)
            }
        };
        run1(x.clone(), st);
        for t in crate::checks::c01::UNARY {
            run1(crate::checks::c01::apply1(t, x), st);
        }
        let ys: &Vec<String> = &e1v;
        for t in crate::checks::c01::BINARY {
            if tier == Tier::Quick {
                for y in &e0v {
                    run1(crate::checks::c01::apply2(t, x, y), st);
                    run1(crate::checks::c01::apply2(t, y, x), st);
                }
            } else {
                for y in ys {
                    run1(crate::checks::c01::apply2(t, x, y), st);
                }
            }
        }
    });
    st = st.merge(sb);
    // postfix chains (projection extent across several postfix operators)
    let ch = crate::checks::c01::chains(tier.pick(4, 5));
    let sc = par_sweep(ch.chunks(512).map(|c| c.to_vec()).collect(), |chunk: &Vec<String>, st| {
        for s in chunk {
            if rparse::parse(s).is_ok() {
                check_sentence(s, st);
            }
        }
    });
    st = st.merge(sc);
    let dis = st.counters.get("MODEL_DISAGREEMENT").cloned().unwrap_or(0);
    rep.guard("every Earley sentence is parsed by the reference parser", dis == 0);
    rep.guard("parenthesised forms differ from the sentence for many cases", st.nontrivial > 1000);
    rep.rule = "every sentence over T32 up to the length bound (DFS over viable prefixes) plus composed expressions E1/E2: (1) public AST (offsets erased) == tree of the reference precedence parser; (2) the implied fully parenthesised form parses to the same tree and gives the same search outcome on 12 documents. states = sentences; transitions = parses + searches; non-trivial = the parenthesised form differs from the sentence".into();
    rep.bounds = json!({"sentence_len": l, "alphabet": alpha.texts, "documents": 12});
    rep.assumptions = vec![
        "filter binds tighter than the wildcard inside the shared wildcard/filter level (pinned by compliance case filters.json 169)".into(),
        "after '.', a multi-select list may be read as a complete right-hand side or as the start of a bracket chain (both trees accepted)".into(),
    ];
    rep.stats = st;
    rep.finish()
}

pub fn replay(case: &Value) -> Option<(String, bool)> {
    let src = case["expression"].as_str()?;
    let mut st = Stats::default();
    check_sentence(src, &mut st);
    match st.violations.first() {
        None => Some(("agree".into(), false)),
        Some(v) => Some((format!("{}: expected {} actual {}", v.key, v.expected, v.actual), true)),
    }
}
