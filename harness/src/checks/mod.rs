use crate::engine::Tier;
use serde_json::Value;

pub fn run(id: &str, tier: Tier) -> i32 {
    match id {
        "bind" => {
            let r = crate::bind::run();
            println!("bind: {} compliance cases, {} failures", r.cases, r.failures.len());
            for f in &r.failures {
                println!("  {}", f);
            }
            if r.failures.is_empty() { 0 } else { 2 }
        }
        _ => {
            eprintln!("unknown check {}", id);
            2
        }
    }
}

pub fn replay(id: &str, _v: &Value) -> i32 {
    eprintln!("no replay for {}", id);
    2
}
