use crate::engine::Tier;
use serde_json::Value;

pub mod c01;
pub mod c02;
pub mod c03;
pub mod c04;
pub mod c05;
pub mod c06;
pub mod c07;
pub mod c08;
pub mod c09;
pub mod c10;
pub mod c11;
pub mod c12;
pub mod c13;
pub mod c14;
pub mod c15;
#[cfg(all(feature = "sched", jmespath_rs_verif))]
pub mod c16;
pub mod c17;
pub mod c18;

pub fn bind_or_die() {
    let r = crate::bind::run();
    if !r.failures.is_empty() {
        eprintln!("MACHINERY ERROR: the reference model disagrees with {} of {} compliance cases", r.failures.len(), r.cases);
        for f in r.failures.iter().take(20) {
            eprintln!("  {}", f);
        }
        std::process::exit(2);
    }
}

pub fn run(id: &str, tier: Tier) -> i32 {
    match id {
        "bind" => {
            let r = crate::bind::run();
            println!("bind: {} compliance cases, {} failures", r.cases, r.failures.len());
            for f in &r.failures {
                println!("  {}", f);
            }
            if r.failures.is_empty() { 0 } else { 2 }
        }
        "C01" => { bind_or_die(); c01::run(tier) }
        "C02" => { bind_or_die(); c02::run(tier) }
        "C03" => { bind_or_die(); c03::run(tier) }
        "C04" => { bind_or_die(); c04::run(tier) }
        "C05" => c05::run(tier),
        "C06" => { bind_or_die(); c06::run(tier) }
        "C07" => { bind_or_die(); c07::run(tier) }
        "C08" => c08::run(tier),
        "C09" => { bind_or_die(); c09::run(tier) }
        "C10" => { bind_or_die(); c10::run(tier) }
        "C11" => c11::run(tier),
        "C12" => { bind_or_die(); c12::run(tier) }
        "C13" => c13::run(tier),
        "C14" => c14::run(tier),
        "C15" => { bind_or_die(); c15::run(tier) }
        "C18" => c18::run(tier),
        #[cfg(all(feature = "sched", jmespath_rs_verif))]
        "C16" => {
            let n = std::env::args().nth(3).and_then(|s| s.parse().ok()).unwrap_or(0);
            c16::run(tier, n)
        }
        _ => {
            eprintln!("unknown check {}", id);
            2
        }
    }
}

/// Re-execute one recorded case twice, without the explorer; the two
/// observations must be identical (determinism guard).
pub fn replay(id: &str, v: &Value) -> i32 {
    let case = &v["case"];
    let f: fn(&Value) -> Option<(String, bool)> = match id {
        "C01" => c01::replay,
        "C02" => c02::replay,
        "C03" => c03::replay,
        "C04" => c04::replay,
        "C05" => c05::replay,
        "C06" => c06::replay,
        "C07" => c07::replay,
        "C08" => c08::replay,
        "C09" => c09::replay,
        "C10" => c10::replay,
        "C11" => c11::replay,
        "C12" => c12::replay,
        "C13" => c13::replay,
        "C14" => c14::replay,
        "C15" => c15::replay,
        #[cfg(all(feature = "sched", jmespath_rs_verif))]
        "C16" => c16::replay,
        "C17" => c17::replay,
        "C18" => c18::replay,
        _ => {
            eprintln!("no replay for {}", id);
            return 2;
        }
    };
    let a = f(case);
    let b = f(case);
    match (a, b) {
        (Some((oa, va)), Some((ob, vb))) => {
            if oa != ob || va != vb {
                eprintln!("MACHINERY ERROR: two replays of the same case diverge:\n  {}\n  {}", oa, ob);
                return 2;
            }
            println!("{}", oa);
            if va {
                println!("VIOLATION property={} replay=<this file> (reproduced)", id);
                1
            } else {
                println!("case no longer violates {}", id);
                0
            }
        }
        _ => {
            eprintln!("replay file has no usable case");
            2
        }
    }
}
