//! C07 -- slices and indexes.
use crate::engine::{par_sweep, Report, Stats, Tier, Violation};
use crate::implx::{guarded, value_to_var, var_to_value, Out};
use crate::oracle::run_impl;
use crate::reval::{slice_indices, ErrClass};
use serde_json::{json, Value};

fn fmt_opt(x: Option<i64>) -> String {
    x.map(|v| v.to_string()).unwrap_or_default()
}

pub fn values_for(n: i64, wide: bool) -> Vec<Option<i64>> {
    let mut v: Vec<Option<i64>> = vec![None];
    for x in (-n - 2)..=(n + 2) {
        v.push(Some(x));
    }
    let m = i32::MAX as i64;
    let mut ext = vec![m, -m, m - 1, -(m - 1), 1 << 30, -(1 << 30), i32::MIN as i64];
    if wide {
        for j in 0..=(n + 2) {
            ext.push(m - j);
            ext.push(-(m - j));
            ext.push(i32::MIN as i64 + j);
        }
        for k in 4..31 {
            ext.push(1 << k);
            ext.push(-(1 << k));
        }
    }
    for e in ext {
        if !v.contains(&Some(e)) {
            v.push(Some(e));
        }
    }
    v
}

fn expected_slice(n: usize, a: Option<i64>, b: Option<i64>, c: i64) -> Value {
    Value::Array(
        slice_indices(n, a, b, c)
            .into_iter()
            .map(|i| json!(i))
            .collect(),
    )
}

fn viol(key: &str, sub: &str, case: Value, exp: String, act: String) -> Violation {
    Violation {
        key: key.into(),
        check: sub.into(),
        case,
        expected: exp,
        actual: act,
    }
}

/// one (array length, start, stop, step) through the string interface (all
/// spellings) and through Variable::slice
pub fn check_triple(n: usize, a: Option<i64>, b: Option<i64>, c: Option<i64>, st: &mut Stats) {
    let arr: Vec<Value> = (0..n).map(|i| json!(i)).collect();
    let doc = json!({ "xs": arr });
    let step = c.unwrap_or(1);
    let mut spellings = vec![];
    match c {
        None => {
            spellings.push(format!("xs[{}:{}]", fmt_opt(a), fmt_opt(b)));
            spellings.push(format!("xs[{}:{}:]", fmt_opt(a), fmt_opt(b)));
        }
        Some(cv) => spellings.push(format!("xs[{}:{}:{}]", fmt_opt(a), fmt_opt(b), cv)),
    }
    // the grammar's number is ["-"] 1*DIGIT: leading zeros are allowed and change nothing
    if n <= 4 {
        let pad = |x: Option<i64>| match x {
            None => String::new(),
            // a '-' must be followed by a non-zero digit (lexical rule fixed by C03): negative components stay as they are
            Some(v) if v < 0 => v.to_string(),
            Some(v) => format!("{:012}", v),
        };
        match c {
            None => spellings.push(format!("xs[{}:{}]", pad(a), pad(b))),
            Some(cv) => spellings.push(format!("xs[{}:{}:{}]", pad(a), pad(b), pad(Some(cv)))),
        }
    }
    let rc = value_to_var(&doc);
    for sp in &spellings {
        st.states += 1;
        st.transitions += 1;
        st.evaluations += 1;
        st.validated += 1;
        let case = json!({"kind": "slice", "n": n, "expression": sp, "document": doc});
        let out = match guarded(|| jmespath::compile(sp)) {
            Ok(Ok(e)) => run_impl(&e, &rc),
            Ok(Err(e)) => Out::CompileErr(e),
            Err(m) => Out::Panic(m),
        };
        if step == 0 {
            st.outcome("step-0");
            let ok = matches!(&out, Out::SearchErr(e) if crate::implx::classify(e) == crate::implx::IClass::Rt(ErrClass::InvalidValue));
            if !ok {
                st.violate(viol("C07/step-0", "slice-string", case, "invalid-value error".into(), out.brief()));
            }
            continue;
        }
        let exp = expected_slice(n, a, b, step);
        if exp.as_array().unwrap().len() > 0 {
            st.nontrivial += 1;
            st.outcome("non-empty selection");
        } else {
            st.outcome("empty selection");
        }
        let ok = matches!(&out, Out::Value(v, false) if *v == exp);
        if !ok {
            let key = match &out {
                Out::Panic(m) if m.contains("overflow") => "C07/slice/arithmetic-overflow",
                Out::Panic(_) => "C07/slice/panic",
                _ => "C07/slice/wrong-elements",
            };
            st.violate(viol(key, "slice-string", case, exp.to_string(), out.brief()));
        } else {
            st.sample(|| json!({"expression": sp, "n": n, "result": exp}));
        }
    }
    // the slice as a projection with something after it (the selected elements must be exactly those of the bare
    // slice, in that order, whatever evaluates the continuation), and handed on through a pipe
    if step != 0 {
        let body = spellings[0].trim_start_matches("xs").to_string();
        let objs: Vec<Value> = (0..n).map(|i| json!({ "v": i })).collect();
        let doc2 = json!({ "xs": (0..n).map(|i| json!(i)).collect::<Vec<Value>>(), "os": objs });
        let rc2 = value_to_var(&doc2);
        let exp = expected_slice(n, a, b, step);
        let len = exp.as_array().unwrap().len();
        for (sp, want) in [
            (format!("os{}.v", body), exp.clone()),
            (format!("os{}.{{k: v}}.k", body), exp.clone()),
            (format!("xs{} | length(@)", body), json!(len)),
            (format!("os{}.v | [0]", body), exp.as_array().unwrap().first().cloned().unwrap_or(Value::Null)),
        ] {
            st.states += 1;
            st.transitions += 1;
            st.evaluations += 1;
            st.validated += 1;
            let out = match guarded(|| jmespath::compile(&sp)) {
                Ok(Ok(e)) => run_impl(&e, &rc2),
                Ok(Err(e)) => Out::CompileErr(e),
                Err(m) => Out::Panic(m),
            };
            if !matches!(&out, Out::Value(v, false) if *v == want) {
                let case = json!({"kind": "slice", "n": n, "expression": sp, "document": doc2});
                st.violate(viol("C07/slice/continued-projection", "slice-string", case, want.to_string(), out.brief()));
            }
        }
    }
    // direct API
    if step != 0 {
        let fits = |x: Option<i64>| x.map_or(true, |v| v >= i32::MIN as i64 && v <= i32::MAX as i64);
        if fits(a) && fits(b) {
            st.evaluations += 1;
            st.validated += 1;
            st.transitions += 1;
            let v = value_to_var(&Value::Array((0..n).map(|i| json!(i)).collect()));
            let r = guarded(|| v.slice(a.map(|x| x as i32), b.map(|x| x as i32), step as i32));
            let exp = expected_slice(n, a, b, step);
            let case = json!({"kind": "slice-api", "n": n, "start": a, "stop": b, "step": step});
            match r {
                Ok(Some(items)) => {
                    let got = Value::Array(items.iter().map(|x| var_to_value(x)).collect());
                    if got != exp {
                        st.violate(viol("C07/slice-api/wrong-elements", "slice-api", case, exp.to_string(), got.to_string()));
                    }
                }
                Ok(None) => st.violate(viol("C07/slice-api/none-on-array", "slice-api", case, exp.to_string(), "None".into())),
                Err(m) => {
                    let key = if m.contains("overflow") { "C07/slice/arithmetic-overflow" } else { "C07/slice/panic" };
                    st.violate(viol(key, "slice-api", case, exp.to_string(), format!("panic: {}", m)))
                }
            }
        }
    }
}

pub fn check_index(n: usize, i: i64, st: &mut Stats) {
    let arr: Vec<Value> = (0..n).map(|k| json!(k)).collect();
    for (sp, doc) in [
        (format!("xs[{}]", i), json!({ "xs": arr })),
        (format!("[{}]", i), Value::Array(arr.clone())),
    ] {
        st.states += 1;
        st.transitions += 1;
        st.evaluations += 1;
        st.validated += 1;
        let k = if i < 0 { n as i64 + i } else { i };
        let exp = if k >= 0 && k < n as i64 { json!(k) } else { Value::Null };
        if !exp.is_null() {
            st.nontrivial += 1;
        }
        let out = crate::implx::impl_search(&sp, &doc);
        st.outcome(if exp.is_null() { "index out of range" } else { "index in range" });
        let ok = matches!(&out, Out::Value(v, false) if *v == exp);
        if !ok {
            st.violate(viol("C07/index", "index", json!({"kind":"search","expression": sp, "document": doc}), exp.to_string(), out.brief()));
        }
    }
}

/// slices of one long array, compared element-wise without building JSON
fn check_long(n: usize, st: &mut Stats) {
    let rc = value_to_var(&Value::Array((0..n).map(|i| json!(i)).collect()));
    let ni = n as i64;
    let mut ends: Vec<Option<i64>> = vec![None, Some(0), Some(1), Some(5), Some(10), Some(64), Some(65), Some(66), Some(90), Some(ni / 2), Some(ni - 10), Some(ni - 1), Some(ni), Some(ni + 3), Some(-1), Some(-10), Some(-65), Some(-95), Some(-ni), Some(-ni + 5), Some(-ni - 1), Some(65535), Some(65536), Some(65537), Some(-65536)];
    ends.dedup();
    let mut steps: Vec<i64> = vec![1, -1, 2, -2, 3, 7, -7, 63, 64, 65, -64, ni - 1, -(ni - 1), ni, 65536, -65536];
    if n > 1100 {
        ends = vec![None, Some(0), Some(1), Some(64), Some(66), Some(ni - 1), Some(ni), Some(-1), Some(-65), Some(-ni), Some(65535), Some(65536), Some(65537), Some(3)];
        steps = vec![1, -1, 2, -2, 64, 65536];
    }
    for a in &ends {
        for b in &ends {
            for &c in &steps {
                if c == 0 {
                    continue;
                }
                // keep the work bounded on the very long arrays: skip selections that differ from
                // an already covered one only in the far end
                st.states += 1;
                st.transitions += 1;
                st.evaluations += 1;
                st.validated += 1;
                let want = slice_indices(n, *a, *b, c);
                let fits = |x: &Option<i64>| x.map_or(true, |v| v >= i32::MIN as i64 && v <= i32::MAX as i64);
                if !fits(a) || !fits(b) {
                    continue;
                }
                let sp = format!("[{}:{}:{}]", fmt_opt(*a), fmt_opt(*b), c);
                let got = guarded(|| jmespath::compile(&sp).map(|e| e.search(&rc)));
                let ok = match &got {
                    Ok(Ok(Ok(v))) => match v.as_array() {
                        Some(items) => items.len() == want.len() && items.iter().zip(want.iter()).all(|(x, w)| x.as_number() == Some(*w as f64)),
                        None => false,
                    },
                    _ => false,
                };
                if want.len() > 64 {
                    st.nontrivial += 1;
                }
                st.outcome("long-array slice");
                if !ok {
                    let act = match &got {
                        Ok(Ok(Ok(v))) => format!("{} elements, first {:?}, last {:?}", v.as_array().map_or(0, |a| a.len()), v.as_array().and_then(|a| a.first().map(|x| x.to_string())), v.as_array().and_then(|a| a.last().map(|x| x.to_string()))),
                        other => format!("{:?}", other.as_ref().map(|r| r.as_ref().map(|r2| r2.as_ref().map(|_| ()).map_err(|e| e.reason.clone())).map_err(|e| e.reason.clone()))),
                    };
                    st.violate(viol("C07/slice/long-array", "length-ladder", json!({"kind": "long-slice", "n": n, "expression": sp}), format!("{} elements, first {:?}, last {:?}", want.len(), want.first(), want.last()), act));
                }
            }
        }
    }
    // indexes into the long array
    for i in [0i64, 1, 63, 64, 65, ni - 1, ni, -1, -64, -65, -ni, -ni - 1, 65535, 65536, -65536, -12, -19, -100, -101, -1234] {
        check_index_rc(n, i, &rc, st);
    }
}

fn check_index_rc(n: usize, i: i64, rc: &jmespath::Rcvar, st: &mut Stats) {
    st.states += 1;
    st.evaluations += 1;
    st.validated += 1;
    let sp = format!("[{}]", i);
    let k = if i < 0 { n as i64 + i } else { i };
    let want = if k >= 0 && k < n as i64 { Some(k as f64) } else { None };
    let got = guarded(|| jmespath::compile(&sp).map(|e| e.search(rc)));
    let ok = match &got {
        Ok(Ok(Ok(v))) => match want {
            Some(w) => v.as_number() == Some(w),
            None => v.is_null(),
        },
        _ => false,
    };
    if !ok {
        st.violate(viol("C07/index/long-array", "length-ladder", json!({"kind": "long-slice", "n": n, "expression": sp}), format!("{:?}", want), format!("{:?}", got.map(|r| r.map(|r2| r2.map(|v| v.to_string()).map_err(|e| e.reason)).map_err(|e| e.reason)))));
    }
}

fn check_non_array(st: &mut Stats) {
    let subjects = [json!(null), json!(1), json!("abc"), json!({"a": 1}), json!(true)];
    let exprs = ["xs[:]", "xs[1:]", "xs[::-1]", "xs[0:1:2]", "xs[-1:]", "xs[0]", "xs[-1]", "[:]", "[0]", "[::2]"];
    for s in &subjects {
        for e in &exprs {
            st.states += 1;
            st.transitions += 1;
            st.evaluations += 1;
            st.validated += 1;
            let doc = if e.starts_with('[') { s.clone() } else { json!({ "xs": s }) };
            let out = crate::implx::impl_search(e, &doc);
            st.outcome("non-array subject");
            if !matches!(&out, Out::Value(Value::Null, false)) {
                st.violate(viol("C07/non-array", "non-array", json!({"kind":"search","expression": e, "document": doc}), "null".into(), out.brief()));
            }
        }
    }
}

/// the slice node itself, hand-built through the public `Ast` and `Expression::new` (the parser always wraps a
/// slice in a projection; a program that builds trees sees the bare node): arrays keep every selected element
/// including nulls, any non-array subject gives null, step 0 is an invalid-value error
fn check_slice_node(st: &mut Stats) {
    use jmespath::ast::Ast;
    let subjects = [
        json!([]), json!([0]), json!([0, null, 2]), json!([0, 1, null, 3, 4]), json!(null), json!(1), json!("abc"), json!(""),
        json!({"a": 1}), json!({}), json!(true), json!(false), json!([null]), json!([[1], "a", {"b": 2}]),
    ];
    let vals: Vec<Option<i32>> = vec![None, Some(-6), Some(-5), Some(-3), Some(-2), Some(-1), Some(0), Some(1), Some(2), Some(3), Some(5), Some(6), Some(i32::MAX), Some(i32::MIN)];
    let steps = [1, -1, 2, -2, 3, 0, i32::MAX, i32::MIN, 7];
    for subj in &subjects {
        let rc = value_to_var(subj);
        for &a in &vals {
            for &b in &vals {
                for &c in &steps {
                    st.states += 1;
                    st.transitions += 1;
                    st.evaluations += 1;
                    st.validated += 1;
                    let node = Ast::Slice { offset: 0, start: a, stop: b, step: c };
                    let wrapped = Ast::Or {
                        offset: 0,
                        lhs: Box::new(node.clone()),
                        rhs: Box::new(Ast::Literal { offset: 0, value: value_to_var(&json!("fallback")) }),
                    };
                    let case = json!({"kind": "slice-node", "subject": subj, "start": a, "stop": b, "step": c});
                    let e = jmespath::Expression::new("", node, &jmespath::DEFAULT_RUNTIME);
                    let out = run_impl(&e, &rc);
                    if c == 0 {
                        if subj.is_array() {
                            let ok = matches!(&out, Out::SearchErr(e) if crate::implx::classify(e) == crate::implx::IClass::Rt(ErrClass::InvalidValue));
                            if !ok {
                                st.violate(viol("C07/step-0", "slice-node", case, "invalid-value error".into(), out.brief()));
                            }
                        }
                        st.outcome("step-0");
                        continue;
                    }
                    let exp = match subj {
                        Value::Array(items) => Value::Array(slice_indices(items.len(), a.map(|x| x as i64), b.map(|x| x as i64), c as i64).into_iter().map(|i| items[i].clone()).collect()),
                        _ => Value::Null,
                    };
                    if !matches!(&out, Out::Value(v, false) if *v == exp) {
                        st.violate(viol(if subj.is_array() { "C07/slice-node/wrong-elements" } else { "C07/non-array" }, "slice-node", case.clone(), exp.to_string(), out.brief()));
                    }
                    // the node as the left operand of `||`: a null result falls through to the right operand
                    let e2 = jmespath::Expression::new("", wrapped, &jmespath::DEFAULT_RUNTIME);
                    let out2 = run_impl(&e2, &rc);
                    let exp2 = match &exp {
                        Value::Null => json!("fallback"),
                        Value::Array(x) if x.is_empty() => json!("fallback"),
                        other => other.clone(),
                    };
                    if !matches!(&out2, Out::Value(v, false) if *v == exp2) {
                        st.violate(viol(if subj.is_array() { "C07/slice-node/wrong-elements" } else { "C07/non-array" }, "slice-node", case, format!("(node || 'fallback') = {}", exp2), out2.brief()));
                    }
                    st.outcome(if subj.is_array() { "slice node on an array" } else { "non-array subject" });
                }
            }
        }
    }
}

/// model validation: R-slice against real python3 on a window
fn python_crosscheck() -> Result<u64, String> {
    let script = r#"
import sys
vals=[None]+list(range(-7,8))
out=[]
for n in range(0,5):
    xs=list(range(n))
    for a in vals:
        for b in vals:
            for c in range(-7,8):
                if c==0: continue
                out.append("%d %s %s %d %s"%(n,a,b,c,",".join(map(str,xs[a:b:c]))))
sys.stdout.write("\n".join(out))
"#;
    let o = std::process::Command::new("python3")
        .arg("-c")
        .arg(script)
        .output()
        .map_err(|e| format!("python3 not runnable: {}", e))?;
    if !o.status.success() {
        return Err("python3 failed".into());
    }
    let txt = String::from_utf8_lossy(&o.stdout);
    let mut cnt = 0;
    for line in txt.lines() {
        let parts: Vec<&str> = line.splitn(5, ' ').collect();
        let n: usize = parts[0].parse().unwrap();
        let p = |s: &str| if s == "None" { None } else { Some(s.parse::<i64>().unwrap()) };
        let (a, b, c) = (p(parts[1]), p(parts[2]), parts[3].parse::<i64>().unwrap());
        let want: Vec<usize> = if parts.len() < 5 || parts[4].is_empty() {
            vec![]
        } else {
            parts[4].split(',').map(|x| x.parse().unwrap()).collect()
        };
        if slice_indices(n, a, b, c) != want {
            eprintln!("MACHINERY ERROR: R-slice disagrees with python3 on n={} {:?}:{:?}:{}", n, a, b, c);
            std::process::exit(2);
        }
        cnt += 1;
    }
    Ok(cnt)
}

pub fn run(tier: Tier) -> i32 {
    let mut rep = Report::new("C07", tier);
    crate::engine::start_watchdog("C07", std::time::Duration::from_secs(60));
    let py = python_crosscheck();
    let nmax: usize = tier.pick(10, 16);
    let wide = true;
    let mut shards = Vec::new();
    for n in 0..=nmax {
        for a in values_for(n as i64, wide) {
            shards.push((n, a));
        }
    }
    let mut st = par_sweep(shards, |&(n, a), st| {
        let vals = values_for(n as i64, wide);
        let mut steps: Vec<Option<i64>> = vec![None];
        for s in (-(n as i64) - 2)..=(n as i64 + 2) {
            steps.push(Some(s));
        }
        let m = i32::MAX as i64;
        for s in [m, -m, 1 << 30, -(1 << 30), i32::MIN as i64, m - 1] {
            steps.push(Some(s));
        }
        if wide {
            for k in 4..31 {
                steps.push(Some(1 << k));
                steps.push(Some(-(1 << k)));
            }
        }
        for b in &vals {
            for c in &steps {
                check_triple(n, a, *b, *c, st);
            }
        }
        if let Some(i) = a {
            check_index(n, i, st);
        }
    });
    // length ladder: long arrays (fast paths, chunking and pre-allocation limits live here)
    {
        let ladder: Vec<usize> = if tier == Tier::Thorough { vec![31, 32, 33, 63, 64, 65, 66, 67, 100, 127, 128, 129, 255, 256, 257, 1000, 1023, 1024, 1025, 4095, 4096, 4097, 65535, 65536, 65537, 70000, 131073] } else { vec![33, 64, 65, 66, 100, 129, 257, 1025, 4097, 65535, 65536, 65537, 70000] };
        let sl = par_sweep(ladder, |&n, st| check_long(n, st));
        st = st.merge(sl);
    }
    check_non_array(&mut st);
    check_slice_node(&mut st);
    match &py {
        Ok(c) => st.count("python3_crosscheck_triples", *c),
        Err(e) => rep.assumptions.push(format!("python3 cross-validation skipped: {}", e)),
    }
    rep.guard("non-empty selections occur", st.nontrivial > 100);
    rep.rule = "all (array length, start, stop, step) triples over the window +-(n+2) plus the i32 extremes, each omission pattern, through the string interface and Variable::slice; all indexes over the same value set; non-array subjects. Oracle: Python slice.indices rule in i128 arithmetic (cross-validated against python3). non-trivial = the rule selects at least one element The bare slice node (hand-built Ast::Slice through Expression::new, alone and as the left operand of ||) over 14 subjects x 14 x 14 x 9 (start, stop, step): arrays keep nulls, non-arrays give null, step 0 is an error. Non-negative components also zero-padded to 12 digits.".into();
    rep.bounds = json!({"max_array_len": nmax, "wide_extremes": wide});
    rep.stats = st;
    rep.finish()
}

pub fn replay(case: &Value) -> Option<(String, bool)> {
    let mut st = Stats::default();
    match case["kind"].as_str()? {
        "slice" | "search" => {
            let e = case["expression"].as_str()?;
            let out = crate::implx::impl_search(e, &case["document"]);
            // re-derive the expectation through the reference interpreter
            let p = crate::rparse::parse(e).ok()?;
            let r = crate::reval::Eval::builtin().search(&p.tree, &case["document"]);
            let ok = crate::oracle::agrees(&r, &out);
            Some((format!("expected {} actual {}", crate::oracle::ref_brief(&r), out.brief()), !ok))
        }
        "long-slice" => {
            let n = case["n"].as_u64()? as usize;
            let e = case["expression"].as_str()?;
            let doc = Value::Array((0..n).map(|i| json!(i)).collect());
            let out = crate::implx::impl_search(e, &doc);
            let p = crate::rparse::parse(e).ok()?;
            let r = crate::reval::Eval::builtin().search(&p.tree, &doc);
            let ok = crate::oracle::agrees(&r, &out);
            Some((format!("agrees with the reference: {}", ok), !ok))
        }
        "slice-node" => {
            check_slice_node(&mut st);
            let want = case.to_string();
            let v = st.violations.iter().find(|v| v.case.to_string() == want);
            Some(match v {
                Some(v) => (format!("expected {} actual {}", v.expected, v.actual), true),
                None => ("agree".into(), false),
            })
        }
        "slice-api" => {
            let g = |k: &str| case[k].as_i64();
            check_triple(case["n"].as_u64()? as usize, g("start"), g("stop"), g("step"), &mut st);
            let v = st.violations.iter().find(|v| v.check == "slice-api");
            Some(match v {
                Some(v) => (format!("expected {} actual {}", v.expected, v.actual), true),
                None => ("agree".into(), false),
            })
        }
        _ => None,
    }
}
