//! C09 -- raw strings, JSON literals and quoted identifiers denote exactly their value.
use crate::checks::c03::{char_dfs, char_shards};
use crate::engine::{par_sweep, Report, Stats, Tier, Violation};
use crate::implx::{guarded, value_to_var, Out};
use crate::oracle::{agrees, ref_brief, run_impl, unspecified};
use crate::reval::Eval;
use crate::rlex::{self, Tok};
use crate::rparse::{self, K};
use serde_json::{json, Value};

const MARK: &str = "MARK";

fn viol(key: &str, sub: &str, s: &str, doc: &Value, exp: String, act: String) -> Violation {
    Violation {
        key: key.into(),
        check: sub.into(),
        case: json!({"kind": "search", "expression": s, "document": doc}),
        expected: exp,
        actual: act,
    }
}

/// Differential decision of one spelled expression: acceptance, then value.
/// `want`: when Some, the reference value must additionally equal it
/// (generative direction).
pub fn decide(s: &str, want: Option<&Value>, sub: &str, st: &mut Stats) {
    st.evaluations += 1;
    st.validated += 1;
    let rp = rparse::parse(s);
    let comp = guarded(|| jmespath::compile(s));
    let expr = match (&rp, comp) {
        (Err(_), Ok(Err(e))) => {
            if crate::implx::classify(&e) != crate::implx::IClass::Parse {
                st.violate(viol("C09/non-parse-error", sub, s, &Value::Null, "parse error".into(), format!("{:?}", e.reason)));
            }
            st.outcome("rejected by both");
            if want.is_some() {
                st.count("MODEL_ERROR_generated_spelling_rejected", 1);
            }
            return;
        }
        (Ok(_), Ok(Ok(e))) => e,
        (Err(_), Ok(Ok(_))) => {
            // deviations of the grammar itself are C03's business; only the
            // lexical forms matter here
            if rlex::lex(s).is_err() {
                st.violate(viol("C09/malformed-form-accepted", sub, s, &Value::Null, "rejected (malformed quoted form)".into(), "compiles".into()));
            } else {
                st.outcome("grammar-level deviation (C03)");
            }
            return;
        }
        (Ok(_), Ok(Err(e))) => {
            st.violate(viol("C09/well-formed-form-rejected", sub, s, &Value::Null, "compiles".into(), format!("{:?}", e.reason)));
            return;
        }
        (_, Err(m)) => {
            st.violate(viol("C09/panic", sub, s, &Value::Null, "no panic".into(), m));
            return;
        }
    };
    let p = rp.unwrap();
    // document: when the expression is a single member name, an object that
    // holds a marker under exactly that name (and decoys under neighbours)
    let doc = match &p.tree.k {
        K::Field(name) => {
            let mut m = serde_json::Map::new();
            m.insert(name.clone(), json!(MARK));
            m.insert(format!("{}x", name), json!("DECOY1"));
            if let Some(c) = name.chars().next() {
                let rest: String = name.chars().skip(1).collect();
                if !rest.is_empty() {
                    m.insert(rest, json!("DECOY2"));
                }
                m.insert(c.to_string().repeat(2), json!("DECOY3"));
            }
            m.insert(name.clone(), json!(MARK));
            Value::Object(m)
        }
        _ => Value::Null,
    };
    let r = Eval::builtin().search(&p.tree, &doc);
    if unspecified(&r) {
        return;
    }
    if let Some(w) = want {
        let ok = matches!(&r, Ok(crate::reval::V::J(v)) if v == w);
        if !ok {
            st.count("MODEL_ERROR_generated_spelling_decodes_differently", 1);
            return;
        }
    }
    let out = run_impl(&expr, &value_to_var(&doc));
    // a literal denotes exactly its JSON value: compare with the integer / float spelling
    let exact_ok = match (&p.tree.k, &r, &out) {
        (K::Literal(_), Ok(crate::reval::V::J(w)), Out::Value(g, _)) => w == g,
        _ => true,
    };
    if !agrees(&r, &out) || !exact_ok {
        st.outcome("VALUE-MISMATCH");
        st.violate(viol("C09/value", sub, s, &doc, ref_brief(&r), out.brief()));
        return;
    }
    // exact string comparison (deep_eq is exact on strings already)
    st.nontrivial += 1;
    match &out {
        Out::Value(Value::String(_), _) => st.outcome("string value"),
        Out::Value(..) => st.outcome("other value"),
        _ => st.outcome("error"),
    }
    st.sample(|| json!({"expression": s, "result": out.brief()}));
}

/// Whole-expression differential with exact (spelling-preserving) comparison of the value.
pub fn decide_exact(s: &str, st: &mut Stats) {
    // a non-null document: multi-select forms are null on null
    let doc = json!({"z": 0});
    st.evaluations += 1;
    st.validated += 1;
    let rp = rparse::parse(s);
    let out = crate::implx::impl_search(s, &doc);
    match (&rp, &out) {
        (Err(_), Out::CompileErr(_)) => st.outcome("rejected by both"),
        (Ok(p), Out::Value(g, false)) => {
            let r = Eval::builtin().search(&p.tree, &doc);
            match r {
                Ok(crate::reval::V::J(w)) if serde_json::to_string(&w).unwrap() == serde_json::to_string(g).unwrap() => {
                    st.nontrivial += 1;
                    st.outcome("exact value");
                }
                other => {
                    st.violate(viol("C09/value-exact", "literal-pairs", s, &doc, ref_brief(&other), out.brief()));
                }
            }
        }
        (Ok(_), _) => st.violate(viol("C09/well-formed-form-rejected", "literal-pairs", s, &doc, "a value".into(), out.brief())),
        (Err(_), _) => st.violate(viol("C09/malformed-form-accepted", "literal-pairs", s, &doc, "rejected".into(), out.brief())),
    }
}

pub const CONTENT: &[char] = &['a', '\'', '"', '`', '\\', 'u', '0', '{', ' ', 'é', '😀', '\n', '\u{1}'];
pub const VALUE_CHARS: &[char] = &['a', '\'', '"', '`', '\\', 'é', '😀', '\n', '\u{1}', '/', 'u'];

fn spell_raw(v: &str) -> String {
    format!("'{}'", v.replace('\'', "\\'"))
}
fn spell_literal(v: &Value) -> String {
    format!("`{}`", serde_json::to_string(v).unwrap().replace('`', "\\`"))
}
fn json_full_escape(s: &str) -> String {
    let mut out = String::from("\"");
    for c in s.chars() {
        let mut buf = [0u16; 2];
        for u in c.encode_utf16(&mut buf) {
            out.push_str(&format!("\\u{:04x}", u));
        }
    }
    out.push('"');
    out
}
fn json_short_escape(s: &str) -> String {
    let mut out = String::from("\"");
    for c in s.chars() {
        match c {
            '"' => out.push_str("\\\""),
            '\\' => out.push_str("\\\\"),
            '/' => out.push_str("\\/"),
            '\n' => out.push_str("\\n"),
            '\u{8}' => out.push_str("\\b"),
            '\u{c}' => out.push_str("\\f"),
            '\r' => out.push_str("\\r"),
            '\t' => out.push_str("\\t"),
            c if (c as u32) < 0x20 => out.push_str(&format!("\\u{:04X}", c as u32)),
            c => out.push(c),
        }
    }
    out.push('"');
    out
}

/// generative direction for one string value
fn generate(v: &str, st: &mut Stats) {
    let val = Value::String(v.to_string());
    // raw string: representable iff the reference decodes the spelling back
    let raw = spell_raw(v);
    match rlex::lex(&raw) {
        Ok(t) if t.len() == 1 && t[0].1 == Tok::Lit(val.clone()) => decide(&raw, Some(&val), "generate-raw", st),
        _ => st.count("raw_string_not_representable", 1),
    }
    // JSON literal
    let lit = spell_literal(&val);
    match rlex::lex(&lit) {
        Ok(t) if t.len() == 1 && t[0].1 == Tok::Lit(val.clone()) => {
            decide(&lit, Some(&val), "generate-literal", st);
            // the same spelling with other tokens directly adjacent
            for tpl in ["[{X},`1`]", "{X}||`0`", "to_array({X})", "{a:{X},b:'z'}", "[{X}]", "!{X}", "{X}=={X}", "[{X},{R}]", "nokey|{X}", "`null`|{R}", "nokey.z|[{X},{R}]"] {
                let e = tpl.replace("{X}", &lit).replace("{R}", &raw);
                if rparse::parse(&e).is_ok() {
                    decide_exact(&e, st);
                }
            }
        }
        _ => st.count("MODEL_ERROR_literal_not_representable", 1),
    }
    // quoted identifier in three spellings; backticks need no escaping there
    for q in [serde_json::to_string(&val).unwrap(), json_full_escape(v), json_short_escape(v)] {
        match rlex::lex(&q) {
            Ok(t) if t.len() == 1 && t[0].1 == Tok::Quoted(v.to_string()) => {
                decide(&q, Some(&json!(MARK)), "generate-quoted-identifier", st)
            }
            _ => st.count("MODEL_ERROR_quoted_not_representable", 1),
        }
    }
}

pub fn run(tier: Tier) -> i32 {
    let mut rep = Report::new("C09", tier);
    crate::engine::start_watchdog("C09", std::time::Duration::from_secs(60));
    let k = tier.pick(6, 7);
    let mut st = Stats::default();
    // (i) every content between each delimiter pair
    for d in ['\'', '"', '`'] {
        // contents of length 0 and 1
        let mut s0 = Stats::default();
        char_dfs(CONTENT, "", 0, 1, &mut s0, &mut |c, st| {
            st.states -= 0;
            decide(&format!("{}{}{}", d, c, d), None, "delimited-content", st)
        });
        st = st.merge(s0);
        let sh = char_shards(CONTENT, 2);
        let sd = par_sweep(sh, |p, st| {
            char_dfs(CONTENT, p, 2, k, st, &mut |c, st| {
                decide(&format!("{}{}{}", d, c, d), None, "delimited-content", st)
            });
        });
        st = st.merge(sd);
    }
    // (ii) generative direction: every string value of length <= 4
    let vk = tier.pick(4, 5);
    let mut s1 = Stats::default();
    char_dfs(VALUE_CHARS, "", 0, 1, &mut s1, &mut |v, st| generate(v, st));
    st = st.merge(s1);
    let sg = par_sweep(char_shards(VALUE_CHARS, 2), |p, st| {
        char_dfs(VALUE_CHARS, p, 2, vk, st, &mut |v, st| generate(v, st));
    });
    st = st.merge(sg);
    // every JSON value of the document pool as a literal, plus numeric extremes and spellings
    let mut docs = crate::enumr::pool_full();
    for t in ["18446744073709551615", "9223372036854775808", "9223372036854775807", "-9223372036854775808", "1.0", "1e2", "100", "-0.0", "0.30000000000000004", "0.3", "9007199254740993", "1.5e300", "5e-324", "[1, 1.0, 1e0]", "{\"a\": 18446744073709551615, \"b\": [1.0]}"] {
        docs.push(serde_json::from_str(t).unwrap());
    }
    let sl = par_sweep(docs, |d, st| {
        let lit = spell_literal(d);
        decide(&lit, Some(d), "generate-literal-json", st);
        // and with a backtick inside a string member
        let wrapped = json!({"k`": [d, "`x`"]});
        decide(&spell_literal(&wrapped), Some(&wrapped), "generate-literal-json", st);
    });
    st = st.merge(sl);
    // every C0 control character, DEL and some C1 / format characters inside each quoted form
    {
        let mut specials: Vec<char> = (0u32..0x20).filter_map(char::from_u32).collect();
        specials.extend(['\u{7f}', '\u{80}', '\u{85}', '\u{a0}', '\u{2028}', '\u{2029}', '\u{feff}', '\u{200d}', '\u{301}', '\u{fffd}', '\u{10ffff}']);
        for c in specials {
            for (pre, post) in [("", ""), ("a", "b"), ("", "b"), ("a", "")] {
                let inner = format!("{}{}{}", pre, c, post);
                for s in [format!("'{}'", inner), format!("\"{}\"", inner), format!("`\"{}\"`", inner), format!("x.\"{}\"", inner), format!("{{\"{}\": x}}", inner), format!("[`\"{}\"`, '{}']", inner, inner)] {
                    st.states += 1;
                    decide(&s, None, "control-characters", &mut st);
                }
            }
        }
    }
    // pairs of literals in one expression (sharing / interning must not confuse close values)
    {
        let lits = ["1", "1.0", "1e0", "[1]", "[1.0]", "{\"a\":1}", "{\"a\":1.0}", "9007199254740993", "9007199254740992", "[9007199254740993]", "[9007199254740992]", "0.3", "0.30000000000000004", "[0.3]", "[0.30000000000000004]", "\"1\"", "null", "[null]", "-0.0", "0", "[0]", "[-0.0]", "\"é\"", "\"😀\"", "[\"é\"]"];
        for u in lits {
            for v in lits {
                for s in [format!("[`{}`, `{}`]", u, v), format!("[`{}`,`{}`,'{}']", u, v, u), format!("{{a:`{}`,b:`{}`}}", u, v), format!("`{}`||`{}`", u, v), format!("[to_array(`{}`)[0], `{}`]", u, v)] {
                    st.states += 1;
                    decide_exact(&s, &mut st);
                }
            }
        }
    }
    // literal object texts with repeated member names (valid JSON; last one wins)
    for t in ["{\"a\": 1, \"a\": 2}", "{\"a\":{\"b\":1,\"b\":2},\"a\":3}", "[{\"k\":1,\"k\":[]}]", "{\"\\u0061\":1,\"a\":2}"] {
        st.states += 1;
        decide_exact(&format!("`{}`", t), &mut st);
        decide_exact(&format!("`{}`.a", t), &mut st);
    }
    // white space inside a JSON literal: JSON's own four characters are allowed around and inside the value,
    // every other Unicode space / format character makes the literal malformed
    {
        let spaces = [' ', '\t', '\n', '\r', '\u{b}', '\u{c}', '\u{85}', '\u{a0}', '\u{1680}', '\u{2000}', '\u{200a}', '\u{200b}', '\u{2028}', '\u{2029}', '\u{202f}', '\u{205f}', '\u{3000}', '\u{feff}', '\u{180e}'];
        let vals = ["true", "false", "null", "1", "-0.5", "\"a\"", "[]", "{}", "[1,2]", "{\"a\":true}"];
        for w in spaces {
            for v in vals {
                let mut forms = vec![format!("`{}{}`", w, v), format!("`{}{}`", v, w), format!("`{}{}{}`", w, v, w), format!("`{}{}{}{}`", w, w, v, w)];
                if v.contains(',') {
                    forms.push(format!("`{}`", v.replace(',', &format!(",{}", w))));
                }
                if v.contains(':') {
                    forms.push(format!("`{}`", v.replace(':', &format!("{}:{}", w, w))));
                }
                for f in forms {
                    st.states += 1;
                    decide(&f, None, "literal-white-space", &mut st);
                    st.states += 1;
                    decide_exact(&format!("[{}, 'x']", f), &mut st);
                }
            }
        }
    }
    // member names that are spelled like JSON keywords are member names (only a backtick literal is a value)
    {
        let d = json!({"true": 5, "false": 0, "null": "n", "a": 5, "k": true, "xs": [{"k": true, "true": true, "null": null}, {"k": 5, "true": 5, "null": 5}, {"k": null, "true": null}]});
        let rc = value_to_var(&d);
        for n in ["true", "false", "null"] {
            for tpl in ["N", "a == N", "N == a", "a != N", "k == N", "N == `N`", "a.N", "N.a", "xs[0].N", "[N, a]", "{x: N}", "xs[?k == N]", "xs[?N == k]", "xs[?N]", "xs[*].N", "N || a", "N && a", "!N", "N | @", "a < N", "N >= a", "\"N\" == N", "xs[?k == N].N", "not_null(N, a)", "xs[?N == `N`]"] {
                let e = tpl.replace('N', n);
                st.states += 1;
                st.evaluations += 1;
                st.validated += 1;
                match (rparse::parse(&e), guarded(|| jmespath::compile(&e))) {
                    (Ok(p), Ok(Ok(x))) => {
                        if let Some((exp, act, _)) = crate::oracle::compare(&p, &x, &d, &rc) {
                            st.violate(viol("C09/keyword-named-member", "keyword-identifiers", &e, &d, exp, act));
                        } else {
                            st.nontrivial += 1;
                            st.outcome("keyword-named member");
                        }
                    }
                    (Ok(_), other) => st.violate(viol("C09/well-formed-form-rejected", "keyword-identifiers", &e, &d, "compiles".into(), format!("{:?}", other.map(|r| r.map(|_| ()).map_err(|e| e.reason))))),
                    (Err(_), _) => st.count("MODEL_ERROR_keyword_form_does_not_parse", 1),
                }
            }
        }
    }
    // unquoted identifiers are ASCII letters, digits and '_' only: letters and digits of other scripts are not
    // identifier characters (they need the quoted form)
    for c in ['\u{e9}', '\u{b5}', '\u{b2}', '\u{bd}', '\u{663}', '\u{ff11}', '\u{2167}', '\u{1d49c}', '\u{f1}', '\u{df}', '\u{3a9}', '\u{4e2d}', '\u{aa}', '\u{2160}'] {
        for tpl in ["a{}", "{}a", "a{}b", "_{}", "a.b{}", "{{a{}: a}}", "a{}.b", "[a{}]", "a{}(b)", "a || b{}"] {
            let e = tpl.replacen("{}", &c.to_string(), 1).replace("{{", "{").replace("}}", "}");
            st.states += 1;
            decide(&e, None, "non-ascii-identifier-characters", &mut st);
        }
    }
    // (iii) unquoted identifiers
    let mut s3 = Stats::default();
    char_dfs(&['a', 'Z', '_', '0', '9'], "", 0, tier.pick(3, 4), &mut s3, &mut |s, st| {
        if !s.is_empty() {
            decide(s, None, "unquoted-identifier", st)
        }
    });
    st = st.merge(s3);
    let model_err: u64 = st.counters.iter().filter(|(k, _)| k.starts_with("MODEL_ERROR")).map(|(_, v)| *v).sum();
    rep.guard("reference speller and reference decoder are inverse on every generated value", model_err == 0);
    rep.guard("string values observed", st.outcomes.get("string value").cloned().unwrap_or(0) > 1000);
    rep.guard("malformed forms observed", st.outcomes.get("rejected by both").cloned().unwrap_or(0) > 1000);
    rep.rule = "(i) every content string up to the bound over {a ' \" ` \\ u 0 { SP e-acute emoji} between each of the three delimiter pairs; (ii) every string value up to its bound spelled as raw string, JSON literal and quoted identifier (3 escape styles), every pool document as literal; (iii) every short unquoted identifier. Oracle: R-lex decoder (accept/reject and value); identifiers are searched against an object holding a marker under exactly that name plus decoys. non-trivial = accepted by both and values compared Plus: 19 white-space / format characters around and inside 10 JSON literal values (only SP, TAB, LF, CR are JSON white space); member names spelled true / false / null in 25 positions against a document that has such members; literal and raw-string spellings behind a null left-hand side.".into();
    rep.bounds = json!({"content_len": k, "value_len": vk});
    rep.stats = st;
    rep.finish()
}

pub fn replay(case: &Value) -> Option<(String, bool)> {
    let s = case["expression"].as_str()?;
    let mut st = Stats::default();
    decide(s, None, "replay", &mut st);
    decide_exact(s, &mut st);
    // cases recorded with their own document (keyword-named members)
    if case["document"].is_object() && case["document"].get("xs").is_some() {
        if let (Ok(p), Ok(Ok(x))) = (rparse::parse(s), guarded(|| jmespath::compile(s))) {
            if let Some((exp, act, _)) = crate::oracle::compare(&p, &x, &case["document"], &value_to_var(&case["document"])) {
                return Some((format!("expected {} actual {}", exp, act), true));
            }
        }
    }
    Some(match st.violations.first() {
        Some(v) => (format!("{}: expected {} actual {}", v.key, v.expected, v.actual), true),
        None => ("agree".into(), false),
    })
}
