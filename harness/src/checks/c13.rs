//! C13 -- compile and search are pure: deterministic, history independent, non-mutating.
//! Explicit-state BFS (stateright) over operation histories; the state is the
//! history itself, the invariant replays it on fresh real objects.
use crate::engine::{Report, Stats, Tier, Violation};
use crate::implx::{guarded, value_to_var, var_to_value};
use jmespath::{Context, Expression, Rcvar, Runtime};
use serde_json::{json, Value};
use stateright::{Checker, Model, Property};

pub const EXPRS: &[&str] = &[
    "abs('x')",                         // a failing call: the error cursor is set
    "max_by(@, &to_array(@))",          // by-function with nested calls; fails on number arrays
    "a[*].b",                           // projection
    "`{\"k\":[1,2]}`",                  // literal shared with its result
    "a[",                               // failing compile
    "cf(a) || [::0]",                   // custom runtime; falls through to a failing slice
    "sort_by(a, &b)[0] && length(a)",   // by-function, then a second call
    "  abs('x') ",                      // differs from the first only in surrounding whitespace
    "to_string(`1`)",                   // two literals that are equal by value but spelled differently
    "to_string(`1.0`)",
    "type('1')",                        // a raw string with the same inner text as a JSON literal above
    "length('[1, 2, 3, 4, 5, 6, 7, 8, 9, 10, 11]')",  // long raw string ...
    "length(`[1, 2, 3, 4, 5, 6, 7, 8, 9, 10, 11]`)",  // ... and a JSON literal with the same inner text
    "\"1\"",                            // a quoted identifier with the same inner text as the literal `1` and the raw string '1'
    "a.\"b",                             // failing compile inside the lexer: an unclosed delimiter with pending text
    "{a: abs('x'), b: length(`1`), c: nosuch(@)}",  // three failing values: the first one in source order is reported, every time
    "[`1`, 'x']",                       // every part is a constant, the result is not: null on a null document (a result memo would differ)
    "join(@, `[\"a\"]`)",              // two calls of one builtin failing at different argument positions: the
    "join(', ', @)",                    // whole error (expected type, position) is compared, not only its kind
];

pub fn docs() -> Vec<Value> {
    vec![
        json!([1, 2]),
        json!({"a": [{"b": 2, "c": [1]}, {"b": 1}, {"b": null}]}),
        json!({"a": "x"}),
        json!(null),
        json!({"a": [{"b": 2, "c": [3]}, {"b": 1}]}),   // a by-function that succeeds here fails midway on the second document
    ]
}

pub const N_E: usize = 19;
/// histories longer than WIDE_DEPTH use only the operations on the first N_CORE expressions (the full product over
/// all 152 operations at depth 4 is 5.3e8 histories: more than the explorer's memory budget holds)
pub const N_CORE: usize = 16;
pub const WIDE_DEPTH: usize = 3;

fn op_expr(o: &Op) -> usize {
    match *o {
        Op::Compile(i) | Op::CloneE(i) | Op::Drop(i) | Op::Search(i, _) => i as usize,
    }
}
pub const N_D: usize = 5;

#[derive(Clone, Copy, Debug, PartialEq, Eq, Hash)]
pub enum Op {
    Compile(u8),
    CloneE(u8),
    Search(u8, u8),
    Drop(u8),
}

pub fn all_ops() -> Vec<Op> {
    let mut v = Vec::new();
    for i in 0..N_E as u8 {
        v.push(Op::Compile(i));
    }
    for i in 0..N_E as u8 {
        v.push(Op::CloneE(i));
    }
    for i in 0..N_E as u8 {
        for j in 0..N_D as u8 {
            v.push(Op::Search(i, j));
        }
    }
    for i in 0..N_E as u8 {
        v.push(Op::Drop(i));
    }
    v
}

fn custom_runtime() -> Runtime {
    let mut rt = Runtime::new();
    rt.register_builtin_functions();
    rt.register_function(
        "cf",
        Box::new(|args: &[Rcvar], _: &mut Context<'_>| Ok(args[0].get_field("nope"))),
    );
    rt
}

/// Replay a history on fresh objects; returns the observation of every step
/// and whether every shared document is unchanged after every step.
pub fn replay_history(h: &[Op]) -> (Vec<String>, Option<String>) {
    let rt = custom_runtime();
    let dvals = docs();
    let shared: Vec<Rcvar> = dvals.iter().map(value_to_var).collect();
    let mut slots: Vec<Option<Expression<'_>>> = (0..N_E).map(|_| None).collect();
    let mut clones: Vec<Option<Expression<'_>>> = (0..N_E).map(|_| None).collect();
    let mut obs = Vec::new();
    let mut mutated = None;
    let compile = |i: usize| -> Result<Expression<'_>, String> {
        let r = if i == 5 { rt.compile(EXPRS[i]) } else { jmespath::compile(EXPRS[i]) };
        r.map_err(|e| format!("{:?}", e))
    };
    for op in h {
        let o = match guarded(|| match *op {
            Op::Compile(i) => match compile(i as usize) {
                Ok(e) => {
                    let s = format!("compiled {:?} as_str={:?}", e.as_ast(), e.as_str());
                    (s, Some((i as usize, Some(e), false)))
                }
                Err(e) => (format!("compile error {}", e), None),
            },
            Op::CloneE(i) => match &slots[i as usize] {
                Some(e) => (format!("cloned {:?}", e.as_ast()), Some((i as usize, Some(e.clone()), true))),
                None => ("nothing to clone".to_string(), None),
            },
            Op::Search(i, j) => {
                // a clone when there is one, else the original, else compile on the fly
                let fresh;
                let (e, set): (&Expression<'_>, bool) = match (&clones[i as usize], &slots[i as usize]) {
                    (Some(c), _) => (c, false),
                    (None, Some(e)) => (e, false),
                    (None, None) => match compile(i as usize) {
                        Ok(e) => {
                            fresh = e;
                            (&fresh, true)
                        }
                        Err(e) => return (format!("compile error {}", e), None),
                    },
                };
                let _ = set;
                let r = e.search(&shared[j as usize]);
                let s = match r {
                    Ok(v) => format!("value {}", var_to_value(&v)),
                    Err(e) => format!("error {:?}", e),
                };
                (s, None)
            }
            Op::Drop(i) => (format!("dropped {}", slots[i as usize].is_some()), Some((i as usize, None, false))),
        }) {
            Ok((s, upd)) => {
                if let Some((i, e, is_clone)) = upd {
                    if is_clone {
                        clones[i] = e;
                    } else {
                        if e.is_none() {
                            clones[i] = None;
                        }
                        slots[i] = e;
                    }
                }
                s
            }
            Err(m) => format!("PANIC {}", m),
        };
        obs.push(o);
        for (k, d) in shared.iter().enumerate() {
            if var_to_value(d) != dvals[k] && mutated.is_none() {
                mutated = Some(format!("document {} changed to {}", k, var_to_value(d)));
            }
        }
    }
    (obs, mutated)
}

/// The observation an operation gives, independent of history.  `Drop` and
/// `Clone` report on the slot, which legitimately depends on earlier
/// compile/drop operations: those are normalised away.
fn normalise(op: &Op, o: &str) -> String {
    match op {
        Op::Drop(_) => "dropped".into(),
        Op::CloneE(_) => {
            if o.starts_with("cloned") { o.to_string() } else { "nothing to clone".into() }
        }
        _ => o.to_string(),
    }
}

#[derive(Clone)]
pub struct Hist {
    pub depth: usize,
    pub ops: Vec<Op>,
    /// observation of each op at the head of an empty history
    pub baseline: Vec<String>,
    /// tree of each expression, for clone observations
    pub trees: Vec<String>,
}

/// observations of `history` made by a fresh process (the true empty history:
/// no thread-local or global state left behind by anything)
fn fresh_process(history: &[usize]) -> Vec<String> {
    let exe = std::env::current_exe().unwrap();
    let arg = history.iter().map(|i| i.to_string()).collect::<Vec<_>>().join(",");
    let o = std::process::Command::new(&exe).arg("C13-first").arg(arg).output().expect("spawn");
    let txt = String::from_utf8_lossy(&o.stdout).to_string();
    let mut v: Vec<String> = txt.lines().filter(|l| l.starts_with("OBS ")).map(|l| l[4..].replace("\\n", "\n")).collect();
    if v.len() != history.len() || txt.contains("MUTATED") {
        v = vec![format!("fresh process failed: status {:?} {}", o.status.code(), txt.lines().last().unwrap_or(""))];
    }
    v
}

impl Hist {
    /// baselines are taken from fresh processes, one per operation
    pub fn new(depth: usize) -> Hist {
        use rayon::prelude::*;
        let ops = all_ops();
        let baseline: Vec<String> = (0..ops.len()).into_par_iter().map(|i| fresh_process(&[i]).pop().unwrap_or_default()).collect();
        let trees: Vec<String> = (0..N_E)
            .into_par_iter()
            .map(|i| {
                let c = ops.iter().position(|o| *o == Op::Compile(i as u8)).unwrap();
                let k = ops.iter().position(|o| *o == Op::CloneE(i as u8)).unwrap();
                fresh_process(&[c, k]).pop().unwrap_or_default()
            })
            .collect();
        Hist { depth, ops, baseline, trees }
    }

    /// None = the history is fine
    pub fn judge(&self, h: &[u8]) -> Option<(String, String, String)> {
        if h.is_empty() {
            return None;
        }
        let hops: Vec<Op> = h.iter().map(|&i| self.ops[i as usize]).collect();
        let (obs, mutated) = replay_history(&hops);
        if let Some(m) = mutated {
            return Some(("C13/input-mutated".into(), "every shared document equal before and after".into(), m));
        }
        let last = *h.last().unwrap() as usize;
        let got = normalise(&self.ops[last], obs.last().unwrap());
        let want = match self.ops[last] {
            // a clone made after a compile must show the freshly compiled tree
            Op::CloneE(i) if got.starts_with("cloned") => self.trees[i as usize].clone(),
            _ => self.baseline[last].clone(),
        };
        if got != want {
            return Some(("C13/history-dependent".into(), want, got));
        }
        None
    }
}

impl Model for Hist {
    type State = Vec<u8>;
    type Action = u8;
    fn init_states(&self) -> Vec<Self::State> {
        vec![vec![]]
    }
    fn actions(&self, s: &Self::State, actions: &mut Vec<Self::Action>) {
        if s.len() < self.depth.min(WIDE_DEPTH) {
            for i in 0..self.ops.len() {
                actions.push(i as u8);
            }
        } else if s.len() < self.depth && s.iter().all(|&a| op_expr(&self.ops[a as usize]) < N_CORE) {
            for i in 0..self.ops.len() {
                if op_expr(&self.ops[i]) < N_CORE {
                    actions.push(i as u8);
                }
            }
        }
    }
    fn next_state(&self, s: &Self::State, a: Self::Action) -> Option<Self::State> {
        let mut n = s.clone();
        n.push(a);
        Some(n)
    }
    fn properties(&self) -> Vec<Property<Self>> {
        vec![Property::always("last operation answers as on a fresh history; inputs unchanged", |m: &Hist, s: &Vec<u8>| m.judge(s).is_none())]
    }
}

/// A deterministic long history on one thread: k distinct expressions compiled and searched
/// (recording tree and result), then revisited in reverse, strided, A-B-A and failing-heavy
/// orders; every revisit must reproduce the recorded observation.
pub fn long_history_ladder(k: usize) -> (u64, Option<(String, String, String)>) {
    let doc = value_to_var(&json!({"a": {"b": [1, 2, 3]}, "rows": [{"c": 1}, {"c": 2}], "s": "x", "mixed": [{"c": 3, "id": "stale"}, {"c": "x"}, {"c": 2}]}));
    let exprs: Vec<String> = (0..k)
        .map(|i| match i % 11 {
            10 => format!("{{a: s, b: a, c: rows, d: `{}`, a: mixed, e: s}}", i % 3), // a repeated key among several: the tree is the same tree at every compilation
            8 => format!("sort_by(mixed, &c)[{}]", i % 3),                // a by-function that fails at its second element
            9 => format!("{{a: abs('{}'), b: length(`1`), c: nosuch(@)}}", i % 4), // several failing values in one multi-select
            6 => format!("sort_by(rows, &abs(s))[{}]", i % 3),           // fails inside an expression reference
            7 => format!("rows[*].abs(@) | [{}]", i % 3),                 // fails below a projection
            0 => format!("a.b[{}]", i % 5),
            1 => format!("rows[*].c | [{}]", i % 3),
            2 => format!("{{k{}: s, v: `{}`}}", i, i),
            3 => format!("abs('{}')", i),       // always fails (type error)
            4 => format!("[length(s), `{}`, '{}']", i, i),
            _ => format!("sort_by(rows, &c)[{}].c || 'k{}'", i % 4, i),
        })
        .collect();
    let observe = |e: &str| -> String {
        match guarded(|| match jmespath::compile(e) {
            Ok(x) => {
                let c = x.clone();
                format!("{:?} => {}", x.as_ast(), match c.search(&doc) { Ok(v) => format!("ok {}", var_to_value(&v)), Err(e) => format!("err {:?}", e) })
            }
            Err(e) => format!("compile err {:?}", e),
        }) {
            Ok(s) => s,
            Err(m) => format!("PANIC {}", m),
        }
    };
    let mut n = 0u64;
    let first: Vec<String> = exprs.iter().map(|e| { n += 1; observe(e) }).collect();
    let mut orders: Vec<Vec<usize>> = Vec::new();
    orders.push((0..k).rev().collect());
    orders.push((0..k).map(|i| (i * 7) % k).collect());
    orders.push((0..k).flat_map(|i| vec![i, (i + 1) % k, i]).collect());
    orders.push((0..k).flat_map(|i| vec![3 + 6 * (i % (k / 6).max(1)), i]).map(|i| i % k).collect());
    // failing-heavy: before every revisit, the two expressions of the same block that fail inside an expression
    // reference and below a projection
    orders.push((0..k).flat_map(|i| vec![(i / 11) * 11 + 6, (i / 11) * 11 + 7, (i / 11) * 11 + 8, (i / 11) * 11 + 3, i]).filter(|&i| i < k).collect());
    orders.push((0..k).collect());
    for (oi, order) in orders.iter().enumerate() {
        for &i in order {
            n += 1;
            let o = observe(&exprs[i]);
            if o != first[i] {
                return (n, Some((format!("order {} revisiting expression {} ({:?}) after {} operations", oi, i, exprs[i], n), first[i].clone(), o)));
            }
        }
    }
    (n, None)
}

/// first use of the default runtime: each operation as the first of a fresh process
pub fn first_child(history: &[usize]) -> i32 {
    let ops = all_ops();
    let h: Vec<Op> = history.iter().map(|&i| ops[i]).collect();
    let (obs, mutated) = replay_history(&h);
    for (op, o) in h.iter().zip(obs.iter()) {
        println!("OBS {}", normalise(op, o).replace('\n', "\\n"));
    }
    if let Some(m) = mutated {
        println!("MUTATED {}", m);
    }
    0
}

pub fn run(tier: Tier) -> i32 {
    let mut rep = Report::new("C13", tier);
    let depth = tier.pick(3, 4);
    let model = Hist::new(depth);
    let nops = model.ops.len();
    let mut st = Stats::default();
    // determinism of the machinery itself: the fresh-process baseline computed twice
    let again = Hist::new(depth);
    rep.guard("baseline observations are reproducible", again.baseline == model.baseline);
    let distinct: std::collections::BTreeSet<&String> = model.baseline.iter().collect();
    rep.guard("operations have many distinct observations", distinct.len() >= 12);
    let mut checker = model.clone().checker().threads(16).spawn_bfs().join();
    if let Some(path) = checker.discovery("last operation answers as on a fresh history; inputs unchanged") {
        // A discovery must reproduce when the history is replayed alone.  If it does not, the
        // histories replayed concurrently by the checker's worker threads interfered with each
        // other (shared mutable state across threads -- C16's subject, not a history dependence):
        // decide C13 again with a single worker.
        let acts: Vec<u8> = path.into_actions();
        if model.judge(&acts).is_none() {
            println!("note: a discovery of the parallel search did not reproduce sequentially (cross-thread interference); re-deciding with one worker");
            st.count("parallel_discovery_not_reproducible_rerun_single_threaded", 1);
            checker = model.clone().checker().threads(1).spawn_bfs().join();
        }
    }
    st.states = checker.unique_state_count() as u64;
    st.transitions = checker.state_count() as u64;
    st.validated = st.states;
    st.evaluations = st.states;
    st.nontrivial = st.states.saturating_sub(1);
    st.count("max_depth", checker.max_depth() as u64);
    st.count("operations", nops as u64);
    for (i, op) in model.ops.iter().enumerate() {
        st.outcome(&model.baseline[i].split(' ').take(2).collect::<Vec<_>>().join(" "));
        if i % 6 == 0 {
            st.sample(|| json!({"operation": format!("{:?}", op), "observation": crate::engine::trunc(&model.baseline[i], 160)}));
        }
    }
    if let Some(path) = checker.discovery("last operation answers as on a fresh history; inputs unchanged") {
        let acts: Vec<u8> = path.into_actions();
        let mut alone = model.judge(&acts);
        let mut acts = acts;
        if alone.is_none() {
            // diagnosis: look for a shortest self-contained history, each candidate in its own fresh process
            use rayon::prelude::*;
            let n = model.ops.len();
            let pairs: Vec<(usize, usize)> = (0..n).flat_map(|a| (0..n).map(move |b| (a, b))).collect();
            let hit = pairs.par_iter().find_first(|(a, b)| {
                let obs = fresh_process(&[*a, *b]);
                let want = match model.ops[*b] {
                    Op::CloneE(i) if obs.last().map_or(false, |o| o.starts_with("cloned")) => model.trees[i as usize].clone(),
                    _ => model.baseline[*b].clone(),
                };
                obs.last() != Some(&want)
            });
            if let Some((a, b)) = hit {
                let obs = fresh_process(&[*a, *b]);
                acts = vec![*a as u8, *b as u8];
                alone = Some(("C13/history-dependent".into(), model.baseline[*b].clone(), obs.last().cloned().unwrap_or_default()));
            }
        }
        let kind = if alone.is_some() { "history-fresh-process" } else { "bfs-single-worker" };
        let (key, want, got) = alone.unwrap_or((
            "C13/state-survives-between-histories".into(),
            "every history replayed on fresh objects answers as on an empty history".into(),
            "with a single worker the search still finds a failing history, but that history passes when replayed alone on a fresh thread: the failure needs state (thread-local / global) left behind by the histories replayed before it".into(),
        ));
        st.violate(Violation {
            key,
            check: "histories".into(),
            case: json!({"kind": kind, "depth": depth, "history": acts.iter().map(|&a| format!("{:?}", model.ops[a as usize])).collect::<Vec<_>>(), "indices": acts}),
            expected: want,
            actual: got,
        });
    } else {
        let ncore = model.ops.iter().filter(|o| op_expr(o) < N_CORE).count() as u64;
        let full: u64 = (0..=depth).map(|d| if d <= WIDE_DEPTH { (nops as u64).pow(d as u32) } else { ncore.pow(d as u32) }).sum();
        rep.guard("the whole history tree was visited", st.states == full);
    }
    // baselines came from fresh processes (one per operation): count them
    st.evaluations += nops as u64 + N_E as u64;
    st.validated += nops as u64 + N_E as u64;
    st.count("fresh_process_baselines", nops as u64 + N_E as u64);
    rep.guard("fresh-process baselines are well-formed", model.baseline.iter().all(|b| !b.starts_with("fresh process failed")));
    // long-history ladder (8 kinds of expressions incl. failures inside expression references and below projections): many distinct expressions compiled and searched on one thread, then
    // revisited in other orders (bounded caches, eviction, counters that only move after hundreds of calls)
    {
        let h = std::thread::spawn(move || long_history_ladder(tier.pick(400, 1500)));
        let (n, bad) = h.join().unwrap();
        st.evaluations += n;
        st.validated += n;
        st.transitions += n;
        st.count("long_history_operations", n);
        if let Some((what, want, got)) = bad {
            st.violate(Violation { key: "C13/long-history".into(), check: "long-history-ladder".into(), case: json!({"kind": "long-history", "n": tier.pick(400, 1500), "what": what}), expected: want, actual: got });
        }
    }
    rep.rule = "explicit-state BFS over all operation histories up to the depth bound (operations: compile / clone / search on 4 shared documents / drop, over 15 expressions incl. a failing call, by-functions with nested calls, a shared literal, a failing compile, a custom runtime); the state is the history, the invariant replays it on fresh real objects and compares the last operation's full observation (tree with offsets, value, or complete error struct) with the same operation on an empty history, and every shared document with its original JSON. Plus each operation as the first operation of a fresh process. non-trivial = non-empty history".into();
    rep.bounds = json!({"depth": depth, "histories_longer_than_3": "operations on the first 16 expressions only (128 operations)", "operations": nops, "expressions": EXPRS, "documents": docs()});
    rep.stats = st;
    rep.finish()
}

pub fn replay(case: &Value) -> Option<(String, bool)> {
    match case["kind"].as_str()? {
        "history" => {
            let idx: Vec<u8> = case["indices"].as_array()?.iter().map(|v| v.as_u64().unwrap() as u8).collect();
            let m = Hist::new(idx.len());
            Some(match m.judge(&idx) {
                Some((k, w, g)) => (format!("{}: expected {} actual {}", k, w, g), true),
                None => ("history independent".into(), false),
            })
        }
        "history-fresh-process" => {
            let idx: Vec<usize> = case["indices"].as_array()?.iter().map(|v| v.as_u64().unwrap() as usize).collect();
            let m = Hist::new(idx.len());
            let obs = fresh_process(&idx);
            let last = *idx.last()?;
            let want = m.baseline[last].clone();
            Some((format!("expected {} actual {:?}", want, obs.last()), obs.last() != Some(&want)))
        }
        "long-history" => {
            let n = case["n"].as_u64()? as usize;
            let h = std::thread::spawn(move || long_history_ladder(n));
            let (_, bad) = h.join().ok()?;
            Some(match bad {
                Some((w, e, g)) => (format!("{}: expected {} got {}", w, e, g), true),
                None => ("every revisit reproduces the first observation".into(), false),
            })
        }
        "bfs-single-worker" => {
            let depth = case["depth"].as_u64()? as usize;
            let m = Hist::new(depth);
            let checker = m.clone().checker().threads(1).spawn_bfs().join();
            let found = checker.discovery("last operation answers as on a fresh history; inputs unchanged").is_some();
            Some((format!("single-worker BFS to depth {}: discovery = {}", depth, found), found))
        }
        _ => None,
    }
}
