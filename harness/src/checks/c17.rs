//! C17 -- cargo features change representation, not meaning.
//! One driver, built under {default, sync, specialized, sync+specialized},
//! writes one line per case; the four files must be byte-identical and every
//! line must equal the reference (serde_json::to_value(input), then R-eval).
use crate::engine::{Report, Stats, Tier, Violation};
use crate::enumr::{sentences, t32};
use crate::gram::{Grammar, Relax};
use crate::implx::{classify, guarded, var_to_value, IClass};
use crate::reval::{deep_eq, Eval, V};
use crate::rparse;
use jmespath::{Expression, Rcvar, ToJmespath, Variable};
use serde_json::{json, Value};
use std::io::Write;

pub const EXPRS: [&str; 12] = [
    "@", "type(@)", "to_string(@)", "abs(@)", "[@, @]", "@ == @", "length(@)", "a", "[0]", "not_null(@, `0`)", "@ < `1`", "nosuch(@)",
];

pub fn config_name() -> &'static str {
    match (cfg!(feature = "sync"), cfg!(feature = "specialized")) {
        (false, false) => "base",
        (true, false) => "sync",
        (false, true) => "spec",
        (true, true) => "spec-sync",
    }
}

fn render(r: Result<Rcvar, jmespath::JmespathError>) -> String {
    match r {
        Ok(v) => format!("ok {}", serde_json::to_string(&var_to_value(&v)).unwrap()),
        Err(e) => match classify(&e) {
            IClass::Parse => format!("err Parse {:?}", e.reason),
            IClass::Rt(c) => format!("err {:?}", c),
        },
    }
}

struct Ctx {
    exprs: Vec<(Expression<'static>, rparse::Parsed)>,
    out: std::io::BufWriter<std::fs::File>,
    lines: u64,
    mismatches: u64,
}

impl Ctx {
    /// `search` is called once per expression with the input freshly produced
    fn case(&mut self, ty: &str, repr: &str, image: &Value, search: &dyn Fn(&Expression<'static>) -> Result<Rcvar, jmespath::JmespathError>) {
        for (i, (e, p)) in self.exprs.iter().enumerate() {
            let got = match guarded(|| search(e)) {
                Ok(r) => render(r),
                Err(m) => format!("PANIC {}", m),
            };
            // reference on the JSON image
            let want = Eval::builtin().search(&p.tree, image);
            let ok = match (&want, &got) {
                (Ok(V::J(w)), g) if g.starts_with("ok ") => match serde_json::from_str::<Value>(&g[3..]) {
                    Ok(gv) => deep_eq(w, &gv),
                    // the text is nested deeper than the JSON reader of this harness goes (128 levels): compare the texts
                    Err(_) => serde_json::to_string(w).map_or(false, |t| t == g[3..]),
                },
                (Err(err), g) if g.starts_with("err ") => g == &format!("err {:?}", err.class),
                _ => false,
            };
            if !ok {
                self.mismatches += 1;
                writeln!(self.out, "MISMATCH {}|{}|{} => {} (reference: {})", ty, repr, EXPRS[i], got, crate::oracle::ref_brief(&want)).ok();
            }
            writeln!(self.out, "{}|{}|{} => {}", ty, repr, EXPRS[i], got).ok();
            self.lines += 1;
        }
    }
}

macro_rules! ints {
    ($ctx:expr, $t:ty, $vals:expr) => {
        for v in $vals {
            let v: $t = v;
            $ctx.case(stringify!($t), &v.to_string(), &json!(v), &|e| e.search(v));
        }
    };
}

fn per_bit_i64() -> Vec<i64> {
    let mut v = vec![0i64, 1, -1, i64::MIN, i64::MAX];
    for p in 0..63 {
        let b = 1i64 << p;
        v.extend_from_slice(&[b, b - 1, b.wrapping_add(1), -b, -b + 1, (-b).wrapping_sub(1)]);
    }
    v.sort();
    v.dedup();
    v
}

fn per_bit_u64() -> Vec<u64> {
    let mut v = vec![0u64, 1, u64::MAX];
    for p in 0..64 {
        let b = 1u64 << p;
        v.extend_from_slice(&[b, b - 1, b.wrapping_add(1)]);
    }
    v.sort();
    v.dedup();
    v
}

pub fn driver(tier: Tier, path: &str) -> i32 {
    let f = std::fs::File::create(path).expect("create driver output");
    let mut ctx = Ctx {
        exprs: EXPRS.iter().map(|e| (jmespath::compile(e).unwrap(), rparse::parse(e).unwrap())).collect(),
        out: std::io::BufWriter::new(f),
        lines: 0,
        mismatches: 0,
    };
    // integers: all values of the 8- and 16-bit widths, per-bit boundaries above
    ints!(ctx, i8, i8::MIN..=i8::MAX);
    ints!(ctx, u8, u8::MIN..=u8::MAX);
    let stride16 = tier.pick(1usize, 1usize);
    ints!(ctx, i16, (i16::MIN..=i16::MAX).step_by(stride16));
    ints!(ctx, u16, (u16::MIN..=u16::MAX).step_by(stride16));
    ints!(ctx, i32, per_bit_i64().into_iter().filter(|v| *v >= i32::MIN as i64 && *v <= i32::MAX as i64).map(|v| v as i32));
    ints!(ctx, u32, per_bit_u64().into_iter().filter(|v| *v <= u32::MAX as u64).map(|v| v as u32));
    ints!(ctx, i64, per_bit_i64());
    ints!(ctx, u64, per_bit_u64());
    ints!(ctx, isize, per_bit_i64().into_iter().map(|v| v as isize));
    ints!(ctx, usize, per_bit_u64().into_iter().map(|v| v as usize));
    // floats
    let f64s = [0.0f64, -0.0, 1.0, -1.0, 0.1, 1.5, 1e300, -1e300, 5e-324, 2.2250738585072014e-308, f64::MAX, f64::MIN, f64::EPSILON, 9007199254740993.0, f64::NAN, f64::INFINITY, f64::NEG_INFINITY, 1e22, 1e23, 123456789.125];
    for v in f64s {
        let img = serde_json::to_value(v).unwrap();
        ctx.case("f64", &format!("{:?}", v), &img, &|e| e.search(v));
    }
    // magnitude thresholds (f32 exactness, i32/u32/i64/u64 range, 2^53, the change of printing form between
    // 1e15 and 1e21): whole values, halves where representable, both signs
    {
        let mut thr: Vec<f64> = Vec::new();
        for p in [24i32, 31, 32, 52, 53, 63, 64] {
            let v = 2f64.powi(p);
            thr.extend([v, -v, v - 1.0, v + 1.0, v * 1.5]);
        }
        for k in 0..=23i32 {
            let v = 10f64.powi(k);
            thr.extend([v, -v, v * 2.5, v + 0.5, v * 9.0]);
        }
        thr.extend([1e-5, 1e-6, 1e-7, 1.5e-7, 4503599627370495.5, 1e-310, -1e-310, 1.1125369292536007e-308, 2.2250738585072009e-308]);
        for v in thr {
            let img = serde_json::to_value(v).unwrap();
            ctx.case("f64", &format!("{:?}", v), &img, &|e| e.search(v));
            ctx.case("&f64", &format!("{:?}", v), &img, &|e| e.search(&v));
            let d = json!({"a": v, "b": [v, 1]});
            let repr = serde_json::to_string(&d).unwrap();
            ctx.case("Value", &repr, &d, &|e| e.search(d.clone()));
            ctx.case("&Value", &repr, &d, &|e| e.search(&d));
            let f = v as f32;
            if f.is_finite() {
                let img = serde_json::to_value(f).unwrap();
                ctx.case("f32", &format!("{:?}", f), &img, &|e| e.search(f));
            }
        }
    }
    // nesting ladder: documents built in memory (no JSON text involved), arrays / objects / mixed around a leaf
    {
        for depth in [1usize, 2, 3, 16, 64, 100, 126, 127, 128, 129, 130, 200, 256, 257, 400] {
            for kind in ["array", "object", "mixed"] {
                let mut v = json!(7);
                for i in 0..depth {
                    v = match (kind, i % 2) {
                        ("array", _) | ("mixed", 0) => Value::Array(vec![v]),
                        _ => json!({ "a": v }),
                    };
                }
                let repr = format!("nest-{}-{}", kind, depth);
                ctx.case("Value", &repr, &v, &|e| e.search(v.clone()));
                ctx.case("&Value", &repr, &v, &|e| e.search(&v));
                let rc = crate::implx::value_to_var(&v);
                ctx.case("&Rcvar", &repr, &v, &|e| e.search(&rc));
                ctx.case("Variable", &repr, &v, &|e| e.search((*rc).clone()));
            }
        }
    }
    let f32s = [0.0f32, -0.0, 1.0, 0.1, 1.5, f32::MAX, f32::MIN, f32::MIN_POSITIVE, 1.0e-40, f32::EPSILON, 16777217.0, f32::NAN, f32::INFINITY, f32::NEG_INFINITY];
    for v in f32s {
        let img = serde_json::to_value(v).unwrap();
        ctx.case("f32", &format!("{:?}", v), &img, &|e| e.search(v));
    }
    ctx.case("()", "()", &Value::Null, &|e| e.search(()));
    for b in [true, false] {
        ctx.case("bool", &b.to_string(), &json!(b), &|e| e.search(b));
    }
    for s in ["", "a", "é😀", "null", "1", "\"q\"", "a\nb", "\u{0}"] {
        ctx.case("&str", &format!("{:?}", s), &json!(s), &|e| e.search(s));
        ctx.case("String", &format!("{:?}", s), &json!(s), &|e| e.search(s.to_string()));
    }
    // JSON types
    let mut pool = crate::enumr::pool_full();
    pool.extend(vec![json!(u64::MAX), json!(i64::MIN), json!(1e300), json!(-0.0), json!({"a": [1, {"a": u64::MAX}], "b": 1.5}), json!([[[]]])]);
    pool.extend(crate::enumr::neighbour_docs());
    if tier == Tier::Thorough {
        pool.extend(crate::enumr::docs_d22_reduced());
        pool = crate::enumr::dedup(pool);
    }
    for d in &pool {
        let repr = serde_json::to_string(d).unwrap();
        ctx.case("Value", &repr, d, &|e| e.search(d.clone()));
        ctx.case("&Value", &repr, d, &|e| e.search(d));
        let rc = crate::implx::value_to_var(d);
        ctx.case("Rcvar", &repr, d, &|e| e.search(rc.clone()));
        ctx.case("&Rcvar", &repr, d, &|e| e.search(&rc));
        ctx.case("Variable", &repr, d, &|e| e.search((*rc).clone()));
        ctx.case("&Variable", &repr, d, &|e| e.search(&*rc));
        // to_jmespath directly
        let tj = match guarded(|| d.to_jmespath()) {
            Ok(Ok(v)) => serde_json::to_string(&var_to_value(&v)).unwrap(),
            other => format!("{:?}", other.map(|r| r.map(|_| ()).map_err(|e| e.reason))),
        };
        writeln!(ctx.out, "to_jmespath|{} => {}", repr, tj).ok();
        ctx.lines += 1;
    }
    // size ladder: arrays, strings and objects of every size 0..=300 (and some larger ones)
    {
        let sizes: Vec<usize> = (0..=300).chain([511, 512, 513, 1023, 1024, 1025, 4096, 65535, 65536, 65537]).collect();
        let lexprs: Vec<(Expression<'static>, rparse::Parsed, &'static str)> = ["length(@)", "@ | length(@)", "[length(@), length(@)]", "sort(@) | length(@)", "reverse(@) | length(@)", "to_string(length(@))"]
            .iter()
            .map(|e| (jmespath::compile(e).unwrap(), rparse::parse(e).unwrap(), *e))
            .collect();
        for n in sizes {
            let arr = Value::Array((0..n).map(|i| json!((i * 7) % 11)).collect());
            let s = Value::String("é".repeat(n));
            let mut m = serde_json::Map::new();
            for i in 0..n {
                m.insert(format!("k{}", i), json!(i));
            }
            let obj = Value::Object(m);
            for (kind, v) in [("array", &arr), ("string", &s), ("object", &obj)] {
                let rc = crate::implx::value_to_var(v);
                for (e, p, text) in &lexprs {
                    if kind != "array" && (text.starts_with("sort") || text.starts_with("reverse") && kind == "object") {
                        continue;
                    }
                    let got = match guarded(|| e.search(&rc)) {
                        Ok(r) => render(r),
                        Err(m) => format!("PANIC {}", m),
                    };
                    let want = Eval::builtin().search(&p.tree, v);
                    let ok = match (&want, &got) {
                        (Ok(V::J(w)), g) if g.starts_with("ok ") => match serde_json::from_str::<Value>(&g[3..]) {
                    Ok(gv) => deep_eq(w, &gv),
                    // the text is nested deeper than the JSON reader of this harness goes (128 levels): compare the texts
                    Err(_) => serde_json::to_string(w).map_or(false, |t| t == g[3..]),
                },
                        (Err(err), g) if g.starts_with("err ") => g == &format!("err {:?}", err.class),
                        _ => false,
                    };
                    if !ok {
                        ctx.mismatches += 1;
                        writeln!(ctx.out, "MISMATCH size|{} of {}|{} => {} (reference: {})", kind, n, text, got, crate::oracle::ref_brief(&want)).ok();
                    }
                    writeln!(ctx.out, "size|{} of {}|{} => {}", kind, n, text, got).ok();
                    ctx.lines += 1;
                }
            }
        }
    }
    // Vec / Option / tuple inputs (generic path in every configuration)
    ctx.case("Vec<u8>", "[0,255]", &json!([0, 255]), &|e| e.search(vec![0u8, 255]));
    ctx.case("Option<i32>", "None", &Value::Null, &|e| e.search(None::<i32>));
    ctx.case("Option<f64>", "Some(NaN)", &Value::Null, &|e| e.search(Some(f64::NAN)));
    ctx.case("(i8,&str)", "(-1,\"a\")", &json!([-1, "a"]), &|e| e.search((-1i8, "a")));
    ctx.case("[f64;2]", "[NaN,1.0]", &json!([null, 1.0]), &|e| e.search([f64::NAN, 1.0]));
    // inputs of types that only the generic Serialize path handles, including values the bridge cannot express
    // (128-bit integers, maps whose keys are not strings): whatever the outcome is -- a value or an error -- it
    // is the same in every configuration
    {
        use std::collections::BTreeMap;
        #[derive(serde::Serialize, Clone)]
        struct Wide {
            id: u128,
            delta: i128,
            name: &'static str,
        }
        #[derive(serde::Serialize, Clone)]
        enum Shape {
            Unit,
            New(i128),
            Tup(u8, u128),
            Rec { a: u64, b: Option<i128> },
        }
        #[derive(serde::Serialize, Clone)]
        struct UnitS;
        #[derive(serde::Serialize, Clone)]
        struct NewT(u128);
        let gexprs: Vec<(Expression<'static>, &'static str)> = ["@", "type(@)", "to_string(@)", "[@, @] | length(@)", "*", "[0]"].iter().map(|e| (jmespath::compile(e).unwrap(), *e)).collect();
        let mut emit = |ctx: &mut Ctx, ty: &str, repr: &str, search: &dyn Fn(&Expression<'static>) -> Result<Rcvar, jmespath::JmespathError>| {
            for (e, text) in &gexprs {
                let got = match guarded(|| search(e)) {
                    Ok(r) => render(r),
                    Err(m) => format!("PANIC {}", m),
                };
                writeln!(ctx.out, "generic|{} {}|{} => {}", ty, repr, text, got).ok();
                ctx.lines += 1;
            }
        };
        for v in [0i128, 1, -1, i64::MAX as i128, i64::MAX as i128 + 1, u64::MAX as i128, u64::MAX as i128 + 1, i64::MIN as i128, i64::MIN as i128 - 1, i128::MAX, i128::MIN] {
            emit(&mut ctx, "i128", &v.to_string(), &|e| e.search(v));
            emit(&mut ctx, "Vec<i128>", &v.to_string(), &|e| e.search(vec![v, 2, 3]));
            emit(&mut ctx, "Option<i128>", &v.to_string(), &|e| e.search(Some(v)));
            emit(&mut ctx, "Shape::New", &v.to_string(), &|e| e.search(Shape::New(v)));
            emit(&mut ctx, "Shape::Rec", &v.to_string(), &|e| e.search(Shape::Rec { a: 1, b: Some(v) }));
        }
        for v in [0u128, 1, u64::MAX as u128, u64::MAX as u128 + 1, u128::MAX] {
            emit(&mut ctx, "u128", &v.to_string(), &|e| e.search(v));
            emit(&mut ctx, "Wide", &v.to_string(), &|e| e.search(Wide { id: v, delta: -(v.min(1 << 100) as i128), name: "w" }));
            emit(&mut ctx, "NewT", &v.to_string(), &|e| e.search(NewT(v)));
            emit(&mut ctx, "Shape::Tup", &v.to_string(), &|e| e.search(Shape::Tup(7, v)));
            emit(&mut ctx, "(u8,u128)", &v.to_string(), &|e| e.search((7u8, v)));
        }
        emit(&mut ctx, "Shape::Unit", "-", &|e| e.search(Shape::Unit));
        emit(&mut ctx, "UnitS", "-", &|e| e.search(UnitS));
        emit(&mut ctx, "char", "'x'", &|e| e.search('x'));
        emit(&mut ctx, "char", "U+1F600", &|e| e.search('\u{1F600}'));
        let m1: BTreeMap<u8, &str> = [(1u8, "one"), (2, "two")].into_iter().collect();
        emit(&mut ctx, "BTreeMap<u8,&str>", "{1,2}", &|e| e.search(m1.clone()));
        let m2: BTreeMap<bool, i32> = [(true, 1), (false, 0)].into_iter().collect();
        emit(&mut ctx, "BTreeMap<bool,i32>", "{t,f}", &|e| e.search(m2.clone()));
        let m3: BTreeMap<(u8, u8), i32> = [((1u8, 2u8), 3)].into_iter().collect();
        emit(&mut ctx, "BTreeMap<(u8,u8),i32>", "{(1,2)}", &|e| e.search(m3.clone()));
        let m4: BTreeMap<char, i32> = [('a', 1), ('b', 2)].into_iter().collect();
        emit(&mut ctx, "BTreeMap<char,i32>", "{a,b}", &|e| e.search(m4.clone()));
        let m5: BTreeMap<String, u128> = [("k".to_string(), u128::MAX), ("s".to_string(), 5)].into_iter().collect();
        emit(&mut ctx, "BTreeMap<String,u128>", "{k,s}", &|e| e.search(m5.clone()));
        let m6: BTreeMap<i64, f32> = [(-1i64, 0.5f32)].into_iter().collect();
        emit(&mut ctx, "BTreeMap<i64,f32>", "{-1}", &|e| e.search(m6.clone()));
        emit(&mut ctx, "Vec<Option<u128>>", "[None,Some]", &|e| e.search(vec![None, Some(u128::MAX), Some(1)]));
        emit(&mut ctx, "Result<u8,String>", "Ok", &|e| e.search(Ok::<u8, String>(3)));
        emit(&mut ctx, "Result<u8,String>", "Err", &|e| e.search(Err::<u8, String>("bad".into())));
        emit(&mut ctx, "&[u16]", "[1,2]", &|e| e.search(&[1u16, 2][..]));
        emit(&mut ctx, "Box<i64>", "5", &|e| e.search(Box::new(5i64)));
        emit(&mut ctx, "std::time::Duration", "1.5s", &|e| e.search(std::time::Duration::from_millis(1500)));
        emit(&mut ctx, "std::net::Ipv4Addr", "127.0.0.1", &|e| e.search(std::net::Ipv4Addr::new(127, 0, 0, 1)));
    }
    // the same borrowed document searched again after it was changed in place, and a new document in the same
    // place: every search sees the value as it is now (sizes around and above a few dozen top-level entries)
    {
        let hexprs: Vec<(Expression<'static>, &'static str)> = ["length(@)", "@[-1]"].iter().map(|e| (jmespath::compile(e).unwrap(), *e)).collect();
        for n in [3usize, 31, 32, 33, 40, 64, 100, 300] {
            let mut arr = Value::Array((0..n).map(|i| json!(i)).collect());
            let mut obj = Value::Object((0..n).map(|i| (format!("k{:03}", i), json!(i))).collect());
            // one document at a time, so that consecutive searches see the same borrowed value before and after
            // its update
            for kind in ["array", "object"] {
                for step in 0..4 {
                    for (e, text) in &hexprs {
                        let d: &Value = if kind == "array" { &arr } else { &obj };
                        let got = match guarded(|| e.search(d)) {
                            Ok(r) => render(r),
                            Err(m) => format!("PANIC {}", m),
                        };
                        let want = match (*text, kind) {
                            ("length(@)", _) => format!("ok {}", n + step),
                            ("@[-1]", "array") => format!("ok {}", if step == 0 { (n - 1) as i64 } else { -(step as i64) }),
                            _ => "ok null".to_string(),
                        };
                        if got != want {
                            ctx.mismatches += 1;
                            writeln!(ctx.out, "MISMATCH history|{} of {} after {} in-place updates|{} => {} (expected {})", kind, n, step, text, got, want).ok();
                        }
                        writeln!(ctx.out, "history|{} of {} after {} in-place updates|{} => {}", kind, n, step, text, got).ok();
                        ctx.lines += 1;
                    }
                    if kind == "array" {
                        arr.as_array_mut().unwrap().push(json!(-((step + 1) as i64)));
                    } else {
                        obj.as_object_mut().unwrap().insert(format!("z{}", step), json!(step));
                    }
                }
            }
            // a different document of the same size built in the same variable
            let again = Value::Array((0..n).map(|i| json!(i * 2)).collect());
            let got = match guarded(|| hexprs[1].0.search(&again)) {
                Ok(r) => render(r),
                Err(m) => format!("PANIC {}", m),
            };
            let want = format!("ok {}", (n - 1) * 2);
            if got != want {
                ctx.mismatches += 1;
                writeln!(ctx.out, "MISMATCH history|fresh array of {}|@[-1] => {} (expected {})", n, got, want).ok();
            }
            writeln!(ctx.out, "history|fresh array of {}|@[-1] => {}", n, got).ok();
            ctx.lines += 1;
        }
    }
    // compile sequences in one process: an expression, then the same text with white space that JMESPath does not
    // skip (and with ordinary white space) before / after it -- the outcome of each compile is the same in every
    // configuration, whatever was compiled before
    {
        let spaces = ["\u{b}", "\u{c}", "\u{85}", "\u{a0}", "\u{2028}", "\u{3000}", "\u{feff}", " ", "\t", "\n", "\r\n"];
        let d = json!({"foo": {"bar": [1, 2]}, "a": "x"});
        let rc = crate::implx::value_to_var(&d);
        for base in ["foo.bar[0]", "a", "length(foo.bar)", "foo.*", "`1`", "'r'"] {
            let mut variants: Vec<String> = vec![base.to_string()];
            for w in spaces {
                variants.push(format!("{}{}", base, w));
                variants.push(format!("{}{}", w, base));
                variants.push(format!("{}{}{}", w, base, w));
            }
            variants.push(base.to_string());
            for (i, v) in variants.iter().enumerate() {
                let line = match guarded(|| jmespath::compile(v)) {
                    Ok(Ok(e)) => format!("compiles; as_str {:?}; {}", e.as_str(), match guarded(|| e.search(rc.clone())) { Ok(r) => render(r), Err(m) => format!("PANIC {}", m) }),
                    Ok(Err(e)) => format!("compile error {:?} at {}", classify(&e), e.offset),
                    Err(m) => format!("PANIC {}", m),
                };
                writeln!(ctx.out, "sequence|{} #{} {:?} => {}", base, i, v, line).ok();
                ctx.lines += 1;
            }
        }
    }
    // compile + search outcomes of every short sentence
    let g = Grammar::new(Relax::default());
    let alpha = t32();
    let docs: Vec<Value> = vec![json!(null), json!([1, [2]]), json!({"a": [1, 2], "b": {"a": 1}}), json!({"a": {"b": [{"a": 1}, {"a": null}]}, "b": "r"})];
    let rcs: Vec<Rcvar> = docs.iter().map(crate::implx::value_to_var).collect();
    let l = tier.pick(5, 6);
    let mut list: Vec<String> = Vec::new();
    sentences(&g, &alpha, &[], l, &mut |seq| list.push(alpha.render(seq)));
    for s in &list {
        let line = match guarded(|| jmespath::compile(s)) {
            Ok(Ok(e)) => rcs.iter().map(|rc| match guarded(|| e.search(rc.clone())) {
                Ok(r) => render(r),
                Err(m) => format!("PANIC {}", m),
            }).collect::<Vec<_>>().join(" ; "),
            Ok(Err(e)) => format!("compile error {:?}", classify(&e)),
            Err(m) => format!("PANIC {}", m),
        };
        writeln!(ctx.out, "sentence|{} => {}", s, line).ok();
        ctx.lines += 1;
    }
    writeln!(ctx.out, "END lines={} mismatches={}", ctx.lines, ctx.mismatches).ok();
    ctx.out.flush().ok();
    println!("C17-driver[{}]: {} lines, {} reference mismatches -> {}", config_name(), ctx.lines, ctx.mismatches, path);
    0
}

fn key_of(line: &str) -> String {
    let ty = line.trim_start_matches("MISMATCH ").split('|').next().unwrap_or("?");
    let nonfinite = line.contains("|NaN|") || line.contains("|inf|") || line.contains("|-inf|");
    if nonfinite {
        format!("C17/{}/non-finite", ty)
    } else {
        format!("C17/{}", ty)
    }
}

/// compare the four driver outputs
pub fn run(tier: Tier, files: &[(String, String)]) -> i32 {
    let mut rep = Report::new("C17", tier);
    let mut st = Stats::default();
    let contents: Vec<(String, Vec<String>)> = files
        .iter()
        .map(|(cfg, p)| (cfg.clone(), std::fs::read_to_string(p).unwrap_or_default().lines().map(|s| s.to_string()).collect()))
        .collect();
    let base = &contents[0];
    rep.guard("driver outputs are complete", contents.iter().all(|(_, l)| l.last().map_or(false, |x| x.starts_with("END "))));
    for (cfg, lines) in &contents {
        st.count(&format!("lines_{}", cfg), lines.len() as u64);
        for l in lines.iter().filter(|l| l.starts_with("MISMATCH ")) {
            st.violate(Violation {
                key: format!("{}/reference-mismatch", key_of(l)),
                check: format!("reference[{}]", cfg),
                case: json!({"kind": "line", "config": cfg, "line": l}),
                expected: "the reference result on serde_json::to_value(input)".into(),
                actual: l.clone(),
            });
        }
    }
    let plain = |l: &Vec<String>| -> Vec<String> { l.iter().filter(|x| !x.starts_with("MISMATCH") && !x.starts_with("END")).cloned().collect() };
    let base_plain = plain(&base.1);
    for (cfg, lines) in contents.iter().skip(1) {
        let lines = plain(lines);
        let n = base_plain.len().max(lines.len());
        for i in 0..n {
            let a = base_plain.get(i).map(|s| s.as_str()).unwrap_or("<missing>");
            let b = lines.get(i).map(|s| s.as_str()).unwrap_or("<missing>");
            if a != b {
                st.violate(Violation {
                    key: format!("{}/configurations-differ", key_of(a)),
                    check: format!("diff[base,{}]", cfg),
                    case: json!({"kind": "diff", "config": cfg, "base": a, "other": b}),
                    expected: a.to_string(),
                    actual: format!("[{}] {}", cfg, b),
                });
            }
        }
    }
    let real: Vec<&String> = base.1.iter().filter(|l| !l.starts_with("MISMATCH") && !l.starts_with("END")).collect();
    st.states = real.len() as u64;
    st.transitions = (real.len() * contents.len()) as u64;
    st.evaluations = st.transitions;
    st.validated = st.transitions;
    st.nontrivial = real.iter().filter(|l| l.contains("=> ok ") && !l.ends_with("=> ok null")).count() as u64;
    for l in real.iter() {
        let ty = l.split('|').next().unwrap_or("?");
        st.outcome(ty);
    }
    for l in real.iter().step_by((real.len() / 10).max(1)) {
        st.sample(|| json!({"line": l}));
    }
    rep.guard("all input types were exercised", ["i8", "u16", "i64", "usize", "f32", "f64", "()", "bool", "&str", "String", "Value", "&Value", "Rcvar", "&Rcvar", "Variable", "&Variable", "sentence", "generic", "history"].iter().all(|k| st.outcomes.contains_key(*k)));
    rep.guard("four configurations compared", contents.len() == 4);
    rep.rule = "one driver built under {default, sync, specialized, sync+specialized}: every specially handled input type (Value, &Value, Rcvar, &Rcvar, Variable, &Variable, String, &str, i8..i64, u8..u64, isize, usize, f32, f64, (), bool) x its value alphabet (all 2^8 and 2^16 values of the narrow widths, per-bit boundaries of the wide ones, floats incl. subnormal / NaN / inf, the document pool) x 12 expressions, 35 kinds of inputs that only the generic Serialize path handles (128-bit integers at the 64-bit boundaries, alone and inside Vec / Option / struct / every enum variant kind, maps keyed by u8 / bool / char / tuple / i64, char, unit struct, Result, Duration, Ipv4Addr) x 6 expressions compared across configurations only, plus compile+search outcomes of every sentence over T32 up to the length bound on 4 documents: the four outputs are byte-identical and each line equals the reference (serde_json::to_value(input), then R-eval). states = cases per configuration; transitions = cases x configurations; non-trivial = non-null value Compile sequences (an expression, then the same text with 11 kinds of white space before / after it, then the expression again) are compared across configurations.".into();
    rep.bounds = json!({"configs": files.iter().map(|f| f.0.clone()).collect::<Vec<_>>(), "expressions": EXPRS});
    rep.stats = st;
    rep.finish()
}

/// Replay of one recorded line: look the same case (type|repr|expression) up
/// in freshly produced driver outputs of all four configurations.
pub fn replay_in(case: &Value, dir: &str) -> Option<(String, bool)> {
    let line = case["line"].as_str().or(case["base"].as_str())?;
    let key: String = line.trim_start_matches("MISMATCH ").split(" => ").next()?.to_string();
    let mut seen = Vec::new();
    let mut bad = false;
    for cfg in ["base", "sync", "spec", "spec-sync"] {
        let txt = std::fs::read_to_string(format!("{}/{}.txt", dir, cfg)).ok()?;
        let hit: Vec<&str> = txt.lines().filter(|l| l.trim_start_matches("MISMATCH ").starts_with(&format!("{} => ", key))).collect();
        if hit.iter().any(|l| l.starts_with("MISMATCH ")) {
            bad = true;
        }
        seen.push(format!("[{}] {}", cfg, hit.iter().find(|l| !l.starts_with("MISMATCH ")).unwrap_or(&"<absent>")));
    }
    let outs: std::collections::BTreeSet<String> = seen.iter().map(|s| s.splitn(2, "] ").nth(1).unwrap_or("").to_string()).collect();
    if outs.len() > 1 {
        bad = true;
    }
    Some((seen.join(" ; "), bad))
}

pub fn replay(case: &Value) -> Option<(String, bool)> {
    let dir = std::env::var("C17_OUT").ok()?;
    replay_in(case, &dir)
}
