//! C12 -- errors are classified and located truthfully.
use crate::checks::c03::{char_dfs, char_shards};
use crate::checks::c06::{classes, names};
use crate::engine::{par_sweep, Report, Stats, Tier, Violation};
use crate::implx::{classify, guarded, value_to_var, IClass};
use crate::reval::{signatures, ErrClass, Eval};
use crate::rparse;
use jmespath::JmespathError;
use serde_json::{json, Value};

/// reference coordinates of a byte offset: zero-based line, character column
pub fn coords(expr: &str, offset: usize) -> Option<(usize, usize)> {
    if offset > expr.len() || !expr.is_char_boundary(offset) {
        return None;
    }
    let before = &expr[..offset];
    let line = before.matches('\n').count();
    let col = match before.rfind('\n') {
        Some(i) => before[i + 1..].chars().count(),
        None => before.chars().count(),
    };
    Some((line, col))
}

/// reference rendering of the message
pub fn render(reason: &str, line: usize, col: usize, expr: &str) -> String {
    let mut out = format!("{} (line {}, column {})\n", reason, line, col);
    let lines: Vec<&str> = expr.split('\n').collect();
    let n = lines.len();
    for (i, l) in lines.iter().enumerate() {
        out.push_str(l);
        if i + 1 < n {
            out.push('\n');
        }
        if i == line {
            if i + 1 == n {
                out.push('\n');
            }
            out.push_str(&" ".repeat(col));
            out.push_str("^\n");
        }
    }
    out
}

fn viol(key: &str, sub: &str, expr: &str, doc: &Value, exp: String, act: String) -> Violation {
    Violation {
        key: key.into(),
        check: sub.into(),
        case: json!({"kind": "error", "expression": expr, "document": doc, "sub": sub}),
        expected: exp,
        actual: act,
    }
}

/// coordinate / rendering consistency of one error value
pub fn check_error_shape(e: &JmespathError, expr: &str, doc: &Value, sub: &str, st: &mut Stats) -> bool {
    if e.expression != expr {
        st.violate(viol("C12/expression-text", sub, expr, doc, format!("expression = {:?}", expr), format!("{:?}", e.expression)));
        return false;
    }
    let (l, c) = match coords(expr, e.offset) {
        Some(x) => x,
        None => {
            st.violate(viol("C12/offset-outside-or-not-on-boundary", sub, expr, doc, format!("offset <= {} on a char boundary", expr.len()), e.offset.to_string()));
            return false;
        }
    };
    if (e.line, e.column) != (l, c) {
        let multibyte = expr[..e.offset].chars().any(|ch| ch.len_utf8() > 1);
        let key = if multibyte { "C12/line-column/multibyte-before-error" } else { "C12/line-column" };
        st.violate(viol(key, sub, expr, doc, format!("offset {} => line {}, column {}", e.offset, l, c), format!("line {}, column {}", e.line, e.column)));
        return false;
    }
    let want = render(&e.reason.to_string(), e.line, e.column, expr);
    let got = match guarded(|| e.to_string()) {
        Ok(g) => g,
        Err(m) => {
            st.violate(viol("C12/rendering-panics", sub, &crate::engine::trunc(expr, 300), doc, "the message renders".into(), format!("panic: {}", m)));
            return false;
        }
    };
    if want != got {
        // The property fixes the content, not the wording: the reason, both coordinates, and a
        // caret line (column C spaces, then '^') directly under line L of the expression.
        let reason = e.reason.to_string();
        let has_reason = got.contains(&reason);
        let has_coords = got.contains(&e.line.to_string()) && got.contains(&e.column.to_string());
        let lines: Vec<&str> = got.split('\n').collect();
        let expr_lines: Vec<&str> = expr.split('\n').collect();
        let caret = format!("{}^", " ".repeat(e.column));
        let caret_ok = lines.windows(2).any(|w| w[1] == caret && expr_lines.get(e.line).map_or(false, |l| w[0] == *l || w[0].ends_with(l)));
        if !(has_reason && has_coords && caret_ok) {
            st.violate(viol("C12/rendering", sub, expr, doc, want, got));
            return false;
        }
        st.count("rendering_differs_in_wording_only", 1);
    }
    true
}

pub const SIGMA_EXT: &[char] = &[
    'a', '1', '0', '-', '.', '*', '[', ']', '?', '|', '&', '!', '=', '<', '>', '@', '(', ')', '{', '}', ',', ':', '"', '\'',
    '`', '\\', ' ', 'é', '\n', '😀', '٣', '\u{301}', '\u{200d}', '\u{fe0f}',
];

fn check_compile_error(s: &str, st: &mut Stats) {
    st.evaluations += 1;
    match guarded(|| jmespath::compile(s).map(|_| ())) {
        Ok(Ok(())) => st.outcome("compiles"),
        Ok(Err(e)) => {
            st.validated += 1;
            if classify(&e) != IClass::Parse {
                st.violate(viol("C12/compile-failure-not-parse", "compile-errors", s, &Value::Null, "Parse".into(), format!("{:?}", e.reason)));
                return;
            }
            if check_error_shape(&e, s, &Value::Null, "compile-errors", st) {
                st.nontrivial += 1;
                let mb = s[..e.offset].chars().any(|c| c.len_utf8() > 1);
                let nl = e.line > 0;
                st.outcome(match (mb, nl) {
                    (false, false) => "parse error, ASCII single line before it",
                    (true, false) => "parse error after multi-byte characters",
                    (false, true) => "parse error after a newline",
                    (true, true) => "parse error after newline and multi-byte characters",
                });
                if st.states % 50021 == 7 {
                    st.sample(|| json!({"expression": s, "offset": e.offset, "line": e.line, "column": e.column}));
                }
            }
        }
        Err(m) => st.violate(viol("C12/panic", "compile-errors", s, &Value::Null, "error value".into(), m)),
    }
}

/// one failing (expression, document): class, expression text, offset at the
/// failing call's '(' (or inside the slice), coordinates, rendering
pub fn check_runtime_error(src: &str, d: &Value, sub: &str, st: &mut Stats) {
    st.states += 1;
    st.transitions += 1;
    st.evaluations += 1;
    let p = match rparse::parse(src) {
        Ok(p) => p,
        Err(_) => {
            st.count("MODEL_ERROR_generated_expression_does_not_parse", 1);
            st.sample(|| json!({"MODEL_ERROR": src}));
            return;
        }
    };
    let r = Eval::builtin().search(&p.tree, d);
    let re = match r {
        Err(e) if e.detail != "UNSPECIFIED" => e,
        _ => {
            st.outcome("reference does not fail (not an error case)");
            return;
        }
    };
    let out = guarded(|| {
        let e = jmespath::compile(src).map_err(|e| format!("compile: {:?}", e.reason))?;
        Ok::<_, String>(e.search(value_to_var(d)))
    });
    st.validated += 1;
    let e = match out {
        Ok(Ok(Err(e))) => e,
        other => {
            st.violate(viol("C12/expected-failure-did-not-fail", sub, src, d, format!("{:?}", re.class), format!("{:?}", other.map(|r| r.map(|s| s.map(|v| v.to_string())))))) ;
            return;
        }
    };
    match classify(&e) {
        IClass::Rt(c) if c == re.class => {}
        other => {
            st.violate(viol("C12/class", sub, src, d, format!("{:?}", re.class), format!("{:?}", other)));
            return;
        }
    }
    // location
    let lo = p.toks[re.tok_lo].0;
    let ok_loc = match re.class {
        ErrClass::InvalidValue => {
            let hi = p.toks[re.tok_hi - 1].0; // start of the closing ']'
            e.offset >= lo && e.offset <= hi
        }
        _ => e.offset == lo,
    };
    if !ok_loc {
        let nested_expref = src.contains("&");
        let key = if nested_expref && re.class == ErrClass::InvalidType { "C12/offset/by-function-after-nested-call" } else { "C12/offset" };
        st.violate(viol(key, sub, src, d, format!("offset {} (the failing call's '(' / inside the slice)", lo), format!("offset {} ({:?})", e.offset, e.reason)));
        return;
    }
    if check_error_shape(&e, src, d, sub, st) {
        st.nontrivial += 1;
        st.outcome(&format!("located {:?}", re.class));
        if st.states % 9973 == 3 {
            st.sample(|| json!({"expression": src, "offset": e.offset, "line": e.line, "column": e.column, "reason": e.reason.to_string()}));
        }
    }
}

fn wrappers(call: &str) -> Vec<String> {
    vec![
        call.to_string(),
        format!("\n {}", call),
        format!("'é😀\n' && {}", call),
        format!("\"é\" || \n\n{}", call),
        format!("to_array({})", call),
        format!("[`1`, {}]", call),
        format!("@ | {}", call),
        format!("`[1,2]`[*].{}", call),
        format!("{{\"é\": {}}}", call),
        format!("map(&{}, `[1]`)", call),
        format!("sort_by(`[1,2]`, &{})", call),
        format!("max_by(`[1]`, &\n{})", call),
        format!("`[[1]]`[?{}]", call),
        // code points that some line-break conventions treat as line terminators, inside string tokens: only LF
        // starts a new line
        // the first failing value of a multi-select (in source order) is the one reported
        format!("{{a: {}, b: nosuchfn(@), c: abs('x')}}", call),
        format!("[{}, nosuchfn(@), abs('x')]", call),
        format!("'a\u{2028}b\u{2029}' && {}", call),
        format!("\"\u{85}\u{2028}\" || \n'\r\u{b}\u{c}' && {}", call),
    ]
}

/// the same call with white space between the function name and its '(' (the lexer accepts it): the error still
/// points at the '('
fn spaced(name: &str, args: &str) -> Vec<String> {
    vec![
        format!("{} ({})", name, args),
        format!("{}\t\t({})", name, args),
        format!("a ||\n {}\n({})", name, args),
        format!("`[1]`[*].{}  ( {} )", name, args),
    ]
}

pub fn run(tier: Tier) -> i32 {
    let mut rep = Report::new("C12", tier);
    crate::engine::start_watchdog("C12", std::time::Duration::from_secs(60));
    let mut st = Stats::default();
    // (a) compile errors of every string over the extended alphabet
    let k = tier.pick(5, 6);
    let mut s0 = Stats::default();
    char_dfs(SIGMA_EXT, "", 0, 1, &mut s0, &mut |s, st| check_compile_error(s, st));
    st = st.merge(s0);
    let sa = par_sweep(char_shards(SIGMA_EXT, 2), |p, st| {
        char_dfs(SIGMA_EXT, p, 2, k, st, &mut |s, st| check_compile_error(s, st));
    });
    st = st.merge(sa);
    // multi-line / multi-byte prefixes in front of every short erroneous tail
    let tails = ["~", "a b", "a.", "[", "a[", "`x`", "\"q", "'r", "a ||", "-", "1", "a = b", "{a}", "f(", "a.1", "&", "[?", "٣"];
    let prefixes = ["'a\u{2028}b' && ", "\"k\u{2029}\".\n", "`\"\u{85}\"` |\u{20}", "'\u{b}\u{c}\r' && ", "", "a ||\n", "\"é\".\n", "'😀😀' &&\n\n  ", "\"éé\\n\" |\t", "a\n.\nb\n.\n", "`\"é\"` == \"😀\" ||\r\n"];
    for p in prefixes {
        for t in tails {
            st.states += 1;
            check_compile_error(&format!("{}{}", p, t), &mut st);
        }
    }
    // errors far to the right on one line and on late lines (rendering limits live here)
    {
        let cols: Vec<usize> = tier.pick(vec![1000, 4095, 4096, 4097, 65533, 65534, 65535, 65536, 65537, 70000], vec![1000, 4095, 4096, 4097, 32767, 32768, 65533, 65534, 65535, 65536, 65537, 70000, 131071, 131072, 131073, 300000]);
        let sl = par_sweep(cols, |&c, st| {
            for unit in ["a", "é", "e\u{301}"] {
                let fill = unit.repeat(c / unit.chars().count());
                for (src, is_rt) in [
                    (format!("'{}' ~", fill), false),
                    (format!("abs('{}')", fill), true),
                    (format!("'{}' && nosuch(@)", fill), true),
                    (format!("a\n|| '{}' && length(`1`)", fill), true),
                    (format!("[{}]\n.~", "a,".repeat(c / 2) + "a"), false),
                ] {
                    st.states += 1;
                    if is_rt {
                        check_runtime_error(&src, &json!({"a": 1}), "long-lines", st);
                    } else {
                        check_compile_error(&src, st);
                    }
                }
            }
        });
        st = st.merge(sl);
    }
    // (b) failing cells of the signature table, embedded
    let sigs = signatures();
    let d = crate::checks::c06::doc();
    let mut work: Vec<(String, usize)> = Vec::new();
    for name in names() {
        let (declared, variadic) = sigs.iter().find(|s| s.name == name).map(|s| (s.params.len(), s.variadic.is_some())).unwrap_or((1, false));
        let maxc = if variadic { 3 } else { declared + 1 };
        for c in 0..=maxc.min(3) {
            work.push((name.clone(), c));
        }
    }
    let sb = par_sweep(work, |(name, argc), st| {
        let cl = classes(false);
        let mut idx = vec![0usize; *argc];
        loop {
            let args: Vec<&str> = idx.iter().map(|&i| cl[i].1).collect();
            let call = format!("{}({})", name, args.join(", "));
            for w in wrappers(&call) {
                check_runtime_error(&w, &d, "runtime-errors", st);
            }
            if *argc <= 2 {
                for w in spaced(name, &args.join(", ")) {
                    check_runtime_error(&w, &d, "runtime-errors-spaced-call", st);
                }
            }
            // odometer
            let mut k = 0;
            loop {
                if k == idx.len() {
                    return;
                }
                idx[k] += 1;
                if idx[k] < cl.len() {
                    break;
                }
                idx[k] = 0;
                k += 1;
            }
        }
    });
    st = st.merge(sb);
    // by-functions failing after a nested call moved the cursor
    let arrs = [json!([1, 2]), json!(["a", 1]), json!([{"a": 1}, {"a": "x"}]), json!([[1], [2]]), json!([null])];
    for a in &arrs {
        for f in ["max_by", "min_by", "sort_by"] {
            for body in ["to_array(@)", "type(@) == 'x'", "not_null(a, @)", "a", "to_string(@) && `null`", "[abs(`1`)]", "@", "keys(`{}`)"] {
                for pre in ["", "\n", "'é' && "] {
                    check_runtime_error(&format!("{}{}(@, &{})", pre, f, body), a, "by-function-errors", &mut st);
                }
            }
        }
    }
    // non-finite results (documented known finding): classification only
    for (e, dd) in [("sum(@)", json!([1e308, 1e308])), ("avg(@)", json!([1e308, 1e308])), ("sum(@)", json!([-1e308, -1e308, -1e308]))] {
        st.states += 1;
        st.evaluations += 1;
        st.validated += 1;
        let out = guarded(|| jmespath::compile(e).unwrap().search(value_to_var(&dd)));
        match out {
            Ok(Err(err)) => {
                if classify(&err) == IClass::Parse || err.expression != e {
                    let f = e.split('(').next().unwrap();
                    st.violate(viol(&format!("C12/nonfinite-result/{}", f), "nonfinite", e, &dd, "a runtime error carrying the expression (or a value)".into(), format!("{:?} expression={:?}", err.reason, err.expression)));
                }
            }
            Ok(Ok(_)) => {}
            Err(m) => st.violate(viol("C12/panic", "nonfinite", e, &dd, "no panic".into(), m)),
        }
    }
    // (c) step-0 slices
    for s in ["[::0]", "a[::0]", "a[1:2:0]", "\n\"é\"[::0]", "a[ : : 0 ]", "a[*][::0]", "[[::0]]", "a | [::0]", "a.b[0:1:0].c", "map(&[::0], a)", "'é😀' && a[\n::0]"] {
        for dd in [json!({"a": [1, 2], "é": [1]}), json!([[1]]), json!({"a": [[1]]})] {
            check_runtime_error(s, &dd, "slice-errors", &mut st);
        }
    }
    let model_err: u64 = st.counters.iter().filter(|(k, _)| k.starts_with("MODEL_ERROR")).map(|(_, v)| *v).sum();
    rep.guard("every generated failing expression parses in the reference", model_err == 0);
    rep.guard("errors after multi-byte characters and after newlines both occur", st.outcomes.get("parse error after multi-byte characters").cloned().unwrap_or(0) > 100 && st.outcomes.get("parse error after a newline").cloned().unwrap_or(0) > 100);
    rep.guard("runtime errors of arity, type and unknown-function located", ["located InvalidArity", "located InvalidType", "located UnknownFunction", "located InvalidValue"].iter().all(|k| st.outcomes.get(*k).cloned().unwrap_or(0) > 0));
    rep.rule = "(a) every character string up to the bound over the extended alphabet (newline, 2- and 4-byte characters, a non-ASCII digit) that fails to compile, plus multi-line prefixes x erroneous tails; (b) every failing cell of the builtin signature table up to the argument-count bound embedded in 13 contexts (after newlines / multi-byte text, nested in calls, projections, filters, exprefs of by-functions), by-functions that fail after a nested call; (c) step-0 slices. Oracle: class = R-fn prediction, expression = searched text, offset = byte offset of the failing call's '(' (R-eval tracks it) or inside the slice, line/column recomputed from the offset, Display re-rendered by the reference. non-trivial = an error was produced and every field checked Calls are also written with white space / tabs / a newline between the name and '('; U+2028, U+2029, U+0085, VT, FF and CR occur inside string tokens in front of the error (only LF starts a line).".into();
    rep.bounds = json!({"char_len": k, "alphabet": SIGMA_EXT.iter().collect::<String>()});
    rep.stats = st;
    rep.finish()
}

pub fn replay(case: &Value) -> Option<(String, bool)> {
    let mut st = Stats::default();
    let e = case["expression"].as_str()?;
    match case["sub"].as_str()? {
        "compile-errors" => check_compile_error(e, &mut st),
        _ => check_runtime_error(e, &case["document"], "replay", &mut st),
    }
    Some(match st.violations.first() {
        Some(v) => (format!("{}: expected {} actual {}", v.key, v.expected, v.actual), true),
        None => ("agree".into(), false),
    })
}
