//! C10 -- equality and ordering operators obey their algebraic contract.
use crate::engine::{par_sweep, Report, Stats, Tier, Violation};
use crate::implx::{impl_search, Out};
use crate::reval::deep_eq;
use serde_json::{json, Value};

pub fn pool(tier: Tier) -> Vec<Value> {
    let big53 = json!(9007199254740992u64);
    let big63 = json!(9223372036854775808u64);
    let umax = json!(u64::MAX);
    let mut v = vec![
        json!(null), json!(true), json!(false), json!(0), json!(1), json!(1.0), json!(-1), json!(2),
        json!(1e2), json!(100), json!(""), json!("a"), json!("1"), big53, big63, umax, json!(-0.0), json!(0.0), json!(2.0), json!(1.5),
        json!(i64::MIN), json!(-1.5), json!("b"), json!("é"),
        // not well separated: only the ordering operators are asserted on these pairs
        json!(0.3), json!(0.30000000000000004), json!(9007199254740993u64), json!(1.0000000000000002), json!(9223372036854775807i64), json!(9007199254740992.0), json!(9.223372036854776e18), json!(1.8446744073709552e19), json!(-9.223372036854775808e18), json!(1e39), json!(1e40), json!(-1e39), json!(1.7e38), json!(1e308), json!(1.5e308), json!(f64::MAX), json!(-1.5e308), json!(-f64::MAX), json!(9e307), json!(5e-324), json!(1e-323), json!(2.2250738585072014e-308), json!(2.225073858507201e-308),
    ];
    let t = vec![json!(null), json!(true), json!(0), json!(1), json!(1.0), json!("a"), json!("1")];
    v.push(json!([]));
    v.push(json!({}));
    for x in &t {
        v.push(json!([x]));
        v.push(json!({ "a": x }));
        v.push(json!({ "b": x }));
    }
    let t2: Vec<Value> = t.clone();
    for x in &t2 {
        for y in &t2 {
            v.push(json!([x, y]));
            v.push(json!({"a": x, "b": y}));
        }
    }
    v.extend(vec![
        json!([[1]]), json!([[1.0]]), json!([[1], [2]]), json!({"a": {"b": 1}}), json!({"a": {"b": 1.0}}),
        json!({"a": {"b": 2}}), json!({"a": [1]}), json!({"a": [1.0]}), json!([{"a": 1}]), json!([{"a": 1.0}]),
        json!([{}]), json!([[]]), json!([1, 2, 3]), json!([1, 2]), json!([3, 2, 1]), json!({"a": 1, "b": 2, "c": 3}),
    ]);
    // magnitude thresholds with integer / float twins (f32 exactness, i32 / u32 range, decimal printing form)
    for x in [16777216i64, 16777217, 2147483647, 2147483648, 4294967295, 4294967296, 4294967297, 1000000000000000, 1000000000000001, 100000000000000000] {
        v.push(json!(x));
        v.push(json!(-x));
        v.push(json!(x as f64));
    }
    v.extend([json!(16777216.5), json!(1e21), json!(1e22), json!(1e-7), json!(1e-6)]);
    // medium-size containers and strings (15 ... 65 elements / members / characters) that are equal, or differ
    // in exactly one place (first, middle, last; value, number spelling, key), or are a prefix of the other
    let lens: &[usize] = match tier { Tier::Quick => &[16, 17, 33], Tier::Thorough => &[15, 16, 17, 31, 32, 33, 64, 65] };
    for &n in lens {
        let base: Vec<Value> = (0..n).map(|i| json!(i % 4)).collect();
        v.push(Value::Array(base.clone()));
        for pos in [0, n / 2, n - 1] {
            let mut a = base.clone();
            a[pos] = json!(9);
            v.push(Value::Array(a));
            let mut b = base.clone();
            b[pos] = json!((pos % 4) as f64);
            v.push(Value::Array(b));
        }
        v.push(Value::Array(base[..n - 1].to_vec()));
        let key = |i: usize| format!("k{:03}", i);
        let obj: serde_json::Map<String, Value> = (0..n).map(|i| (key(i), json!(i % 4))).collect();
        v.push(Value::Object(obj.clone()));
        for pos in [0, n / 2, n - 1] {
            let mut a = obj.clone();
            a.insert(key(pos), json!(9));
            v.push(Value::Object(a));
            let mut b = obj.clone();
            b.remove(&key(pos));
            b.insert(format!("k{:03}x", pos), json!(pos % 4));
            v.push(Value::Object(b));
            let mut c = obj.clone();
            c.insert(key(pos), json!(null));
            v.push(Value::Object(c));
        }
        let mut shorter = obj.clone();
        shorter.remove(&key(n - 1));
        v.push(Value::Object(shorter));
        let sb: Vec<char> = (0..n).map(|i| (b'a' + (i % 3) as u8) as char).collect();
        v.push(json!(sb.iter().collect::<String>()));
        for pos in [0, n / 2, n - 1] {
            for c in ['z', 'é'] {
                let mut t = sb.clone();
                t[pos] = c;
                v.push(json!(t.iter().collect::<String>()));
            }
        }
        v.push(json!(sb[..n - 1].iter().collect::<String>()));
    }
    crate::enumr::dedup_text(v)
}

const OPS: [&str; 6] = ["==", "!=", "<", "<=", ">", ">="];

fn lit(v: &Value) -> String {
    format!("`{}`", serde_json::to_string(v).unwrap().replace('`', "\\`"))
}

/// result of `x OP y` through both presentations; they must agree
fn ask(x: &Value, y: &Value, op: &str, st: &mut Stats) -> Result<Value, Violation> {
    st.evaluations += 2;
    st.validated += 2;
    st.transitions += 2;
    let doc = json!({"l": x, "r": y});
    let e1 = format!("l {} r", op);
    let e2 = format!("{} {} {}", lit(x), op, lit(y));
    let o1 = impl_search(&e1, &doc);
    let o2 = impl_search(&e2, &Value::Null);
    let case = json!({"kind": "compare", "l": x, "r": y, "op": op});
    // when both operands are the same value, also present them as the very same node
    let o3 = if x == y && serde_json::to_string(x).unwrap() == serde_json::to_string(y).unwrap() {
        st.evaluations += 2;
        st.validated += 2;
        let a = impl_search(&format!("@ {} @", op), x);
        let b = impl_search(&format!("l {} l", op), &doc);
        let c = impl_search(&format!("[l, l][?@ {} @]", op), &doc);
        // the filter form yields both elements when the comparison is truthy
        let truthy = matches!(&a, Out::Value(Value::Bool(true), false));
        let c_ok = matches!(&c, Out::Value(Value::Array(v), false) if (v.len() == 2) == truthy || x.is_null());
        match (&a, &b) {
            (Out::Value(p, false), Out::Value(q, false)) if p == q && c_ok => Some(p.clone()),
            _ => {
                return Err(Violation {
                    key: "C10/same-node-operands".into(),
                    check: "operators".into(),
                    case: json!({"kind": "compare", "l": x, "r": y, "op": op}),
                    expected: "'@ OP @', 'l OP l' and the filter form agree".into(),
                    actual: format!("{} vs {} vs {}", a.brief(), b.brief(), c.brief()),
                })
            }
        }
    } else {
        None
    };
    if let (Some(s), Out::Value(a, false)) = (&o3, &o1) {
        if s != a {
            return Err(Violation {
                key: "C10/same-node-operands".into(),
                check: "operators".into(),
                case: json!({"kind": "compare", "l": x, "r": y, "op": op}),
                expected: format!("{} (as for two separate equal operands)", a),
                actual: format!("{} from '@ {} @'", s, op),
            });
        }
    }
    match (&o1, &o2) {
        (Out::Value(a, false), Out::Value(b, false)) if a == b => Ok(a.clone()),
        _ => Err(Violation {
            key: "C10/presentations-differ-or-fail".into(),
            check: "operators".into(),
            case,
            expected: "the same JSON value from 'l OP r' over {l,r} and from the literal form".into(),
            actual: format!("{} vs {}", o1.brief(), o2.brief()),
        }),
    }
}

/// the operator that gives the same answer with the operands exchanged
fn conv_of(op: &str) -> &'static str {
    match op {
        "<" => ">",
        "<=" => ">=",
        ">" => "<",
        ">=" => "<=",
        "==" => "==",
        _ => "!=",
    }
}

fn is_num(v: &Value) -> bool {
    v.is_number()
}

pub fn check_pair(x: &Value, y: &Value, st: &mut Stats) {
    st.states += 1;
    let mut res: Vec<Value> = Vec::new();
    for op in OPS {
        match ask(x, y, op, st) {
            Ok(v) => res.push(v),
            Err(v) => {
                st.violate(v);
                return;
            }
        }
    }
    let case = |op: &str| json!({"kind": "compare", "l": x, "r": y, "op": op});
    let mut bad = |key: &str, op: &str, exp: String, act: String, st: &mut Stats| {
        st.violate(Violation {
            key: key.into(),
            check: "operators".into(),
            case: case(op),
            expected: exp,
            actual: act,
        })
    };
    let eq = deep_eq(x, y);
    let (r_eq, r_ne, r_lt, r_le, r_gt, r_ge) = (&res[0], &res[1], &res[2], &res[3], &res[4], &res[5]);
    let close_numbers = is_num(x) && is_num(y) && crate::reval::key_cmp(x, y) != std::cmp::Ordering::Equal && {
        let (fx, fy) = (x.as_f64().unwrap(), y.as_f64().unwrap());
        (fx - fy).abs() / fx.abs().max(fy.abs()) <= 1e-9
    };
    if !close_numbers && *r_eq != json!(eq) {
        bad("C10/equality", "==", json!(eq).to_string(), r_eq.to_string(), st);
    }
    // '!=' is the negation of '==' for every pair
    if r_eq.is_boolean() && *r_ne != json!(!r_eq.as_bool().unwrap()) {
        bad("C10/inequality-not-negation", "!=", format!("not {}", r_eq), r_ne.to_string(), st);
    }
    if is_num(x) && is_num(y) {
        st.nontrivial += 1;
        st.outcome("number pair");
        let ord = crate::reval::key_cmp(x, y);
        let lt = ord == std::cmp::Ordering::Less;
        let gt = ord == std::cmp::Ordering::Greater;
        // distinct numbers that the tolerant '==' may call equal: the equality laws are not asserted
        let separated = ord == std::cmp::Ordering::Equal || {
            let (fx, fy) = (x.as_f64().unwrap(), y.as_f64().unwrap());
            (fx - fy).abs() / fx.abs().max(fy.abs()) > 1e-9
        };
        if !separated {
            st.outcome("number pair (not well separated: ordering only)");
            for (name, got, want) in [("<", r_lt, lt), ("<=", r_le, !gt), (">", r_gt, gt), (">=", r_ge, !lt)] {
                if *got != json!(want) {
                    bad("C10/ordering-on-close-numbers", name, json!(want).to_string(), got.to_string(), st);
                }
            }
            return;
        }
        for (name, got, want) in [("<", r_lt, lt), ("<=", r_le, lt || eq), (">", r_gt, gt), (">=", r_ge, gt || eq)] {
            if *got != json!(want) {
                bad("C10/ordering-on-numbers", name, json!(want).to_string(), got.to_string(), st);
            }
        }
        // exactly one of <, ==, >
        let cnt = [r_lt, r_eq, r_gt].iter().filter(|v| ***v == json!(true)).count();
        if cnt != 1 {
            bad("C10/trichotomy", "<", "exactly one of <, ==, >".into(), format!("{} hold", cnt), st);
        }
    } else {
        st.outcome(if eq { "equal non-number pair" } else { "unequal / mixed pair" });
        for (name, got) in [("<", r_lt), ("<=", r_le), (">", r_gt), (">=", r_ge)] {
            if !got.is_null() {
                bad("C10/ordering-on-non-numbers", name, "null".into(), got.to_string(), st);
            }
        }
    }
    // symmetry and converse, asked of the implementation alone
    for (op, conv) in [("==", "=="), ("!=", "!="), ("<", ">"), ("<=", ">=")] {
        let a = ask(x, y, op, st);
        let b = ask(y, x, conv, st);
        if let (Ok(a), Ok(b)) = (a, b) {
            if a != b {
                bad("C10/symmetry", op, format!("x {} y == y {} x", op, conv), format!("{} vs {}", a, b), st);
            }
        }
    }
    // mixed presentations: one operand a literal, the other a document node (either side), and the comparison as
    // the predicate of a filter with a literal / a node on the right -- each must give what 'l OP r' gives
    {
        let doc = json!({"l": x, "r": y});
        for (i, op) in OPS.iter().enumerate() {
            let want = &res[i];
            for e in [format!("{} {} r", lit(x), op), format!("l {} {}", op, lit(y)), format!("({}) {} (r)", lit(x), op), format!("@.l {} {}", op, lit(y))] {
                st.evaluations += 1;
                st.validated += 1;
                st.transitions += 1;
                let o = impl_search(&e, &doc);
                if !matches!(&o, Out::Value(v, false) if v == want) {
                    bad("C10/mixed-presentation", &e, want.to_string(), o.brief(), st);
                }
            }
            // as a filter predicate: the element is kept exactly when the comparison is truthy (true); x is null -> dropped by the projection
            let t = *want == json!(true);
            let keep = t && !x.is_null();
            for (e, expect) in [
                (format!("[l][?@ {} {}]", op, lit(y)), if keep { json!([x]) } else { json!([]) }),
                (format!("[l][?{} {} @]", lit(y), conv_of(op)), if keep { json!([x]) } else { json!([]) }),
                (format!("[[l, r]][?[0] {} [1]] | [0][0]", op), if t { x.clone() } else { Value::Null }),
                (format!("[l][?@ {} {}] | [0]", op, lit(y)), if keep { x.clone() } else { Value::Null }),
            ] {
                st.evaluations += 1;
                st.validated += 1;
                st.transitions += 1;
                let o = impl_search(&e, &doc);
                if !matches!(&o, Out::Value(v, false) if serde_json::to_string(v).unwrap() == serde_json::to_string(&expect).unwrap()) {
                    bad("C10/filter-presentation", &e, format!("{} (the comparison gives {})", expect, want), o.brief(), st);
                }
            }
        }
    }
    // operands constructed by the expression from (possibly the very same) document nodes
    if !close_numbers {
        let doc = json!({"l": x, "r": y});
        for (e, want) in [
            ("{a: l} == {a: r}", eq),
            ("{a: l} == {b: r}", false),
            ("{a: l} == {b: l}", false),
            ("{a: l, b: r} == {a: l, c: r}", false),
            ("[l] == [r]", eq),
            ("[l, l] == [l, r]", eq),
            ("[l, r] == [r, l]", eq),
            ("{a: l} != {b: l}", true),
            ("[l] == l", x.is_array() && x.as_array().unwrap().len() == 1 && deep_eq(&x[0], x)),
        ] {
            st.evaluations += 1;
            st.validated += 1;
            st.transitions += 1;
            let o = impl_search(e, &doc);
            if !matches!(&o, Out::Value(Value::Bool(b), false) if *b == want) {
                bad("C10/constructed-operands", e, want.to_string(), o.brief(), st);
            }
        }
    }
    st.sample(|| json!({"l": x, "r": y, "==": res[0], "<": res[2]}));
}

pub fn run(tier: Tier) -> i32 {
    let mut rep = Report::new("C10", tier);
    let p = pool(tier);
    let idx: Vec<usize> = (0..p.len()).collect();
    let st = par_sweep(idx, |&i, st| {
        for y in &p {
            check_pair(&p[i], y, st);
        }
        // reflexivity
        if let Ok(v) = ask(&p[i], &p[i], "==", st) {
            if v != json!(true) {
                st.violate(Violation {
                    key: "C10/reflexive".into(),
                    check: "operators".into(),
                    case: json!({"kind":"compare","l":p[i],"r":p[i],"op":"=="}),
                    expected: "true".into(),
                    actual: v.to_string(),
                });
            }
        }
    });
    rep.guard("number pairs occur", st.nontrivial > 50);
    rep.rule = "all ordered pairs of the value pool x 6 operators x 2 presentations ('l OP r' over {l,r}; backtick literals). Oracle: reference deep equality (numbers by value) and the algebraic laws evaluated on the implementation (reflexive, symmetric, != is the negation, ordering boolean iff both numbers else null, trichotomy, <= iff < or ==, converse). states = ordered pairs; non-trivial = both operands are numbers".into();
    rep.bounds = json!({"pool_size": p.len()});
    rep.assumptions = vec!["distinct numbers of the pool are well separated (identical or >= 1e-9 relative apart); '==' is tolerant by design".into()];
    rep.stats = st;
    rep.finish()
}

pub fn replay(case: &Value) -> Option<(String, bool)> {
    let mut st = Stats::default();
    check_pair(&case["l"], &case["r"], &mut st);
    Some(match st.violations.first() {
        Some(v) => (format!("{}: expected {} actual {}", v.key, v.expected, v.actual), true),
        None => ("all laws hold for this pair".into(), false),
    })
}
