//! C16 -- with the sync feature, compiled expressions are safely shareable across threads.
//! Built only with `--features sched` and `--cfg jmespath_rs_verif`.
use crate::engine::{Report, Stats, Tier, Violation};
use crate::implx::{value_to_var, var_to_value};
use jmespath::{Context, Expression, Rcvar, Runtime, Variable};
use serde_json::{json, Value};
use shuttle::scheduler::{Schedule, Scheduler, Task, TaskId};
use std::collections::BTreeMap;
use std::sync::atomic::{AtomicBool, AtomicU64, Ordering};
use std::sync::{Arc, Mutex};

// ---------------------------------------------------------------------------
// hook callback: a scheduling point at every enabled label while armed

static ARMED: AtomicBool = AtomicBool::new(false);
static LABELS: AtomicU64 = AtomicU64::new(0);
static POINTS: AtomicU64 = AtomicU64::new(0);

pub const ALL_LABELS: [&str; 9] = [
    "search-enter", "interpret", "call", "validate", "error", "get_function", "compile", "default-runtime-before", "default-runtime-after",
];

fn label_bit(l: &str) -> u64 {
    ALL_LABELS.iter().position(|x| *x == l).map(|i| 1u64 << i).unwrap_or(0)
}

fn mask_of(labels: &[&str]) -> u64 {
    labels.iter().map(|l| label_bit(l)).sum()
}

fn hook(label: &'static str) {
    if ARMED.load(Ordering::Relaxed) && LABELS.load(Ordering::Relaxed) & label_bit(label) != 0 {
        POINTS.fetch_add(1, Ordering::Relaxed);
        shuttle::thread::yield_now();
    }
}

pub fn install_hooks() {
    jmespath::verif_hooks::install(hook);
}

// ---------------------------------------------------------------------------
// pre-emption bounded DFS scheduler (after Musuvathi & Qadeer): a switch away
// from a still-runnable task costs one pre-emption

#[derive(Clone, Debug)]
struct Level {
    options: Vec<TaskId>,
    chosen: usize,
    current_runnable: bool,
    preempt_before: usize,
}

impl Level {
    fn cost(&self, idx: usize) -> usize {
        if self.current_runnable && idx > 0 { 1 } else { 0 }
    }
    fn next_allowed(&self, bound: usize) -> Option<usize> {
        let n = self.chosen + 1;
        if n < self.options.len() && self.preempt_before + self.cost(n) <= bound { Some(n) } else { None }
    }
}

lazy_static::lazy_static! {
    static ref TRACE: Mutex<Vec<usize>> = Mutex::new(Vec::new());
    static ref MAX_STEPS: AtomicU64 = AtomicU64::new(0);
}

pub struct PbDfs {
    bound: usize,
    levels: Vec<Level>,
    steps: usize,
    iterations: u64,
    /// replay mode: follow these choice indices, then always the first option
    forced: Option<Vec<usize>>,
    max_iterations: u64,
    pub capped: Arc<AtomicBool>,
}

impl PbDfs {
    pub fn new(bound: usize, max_iterations: u64) -> PbDfs {
        PbDfs { bound, levels: vec![], steps: 0, iterations: 0, forced: None, max_iterations, capped: Arc::new(AtomicBool::new(false)) }
    }
    pub fn replay(choices: Vec<usize>) -> PbDfs {
        PbDfs { bound: usize::MAX, levels: vec![], steps: 0, iterations: 0, forced: Some(choices), max_iterations: 1, capped: Arc::new(AtomicBool::new(false)) }
    }
}

impl Scheduler for PbDfs {
    fn new_execution(&mut self) -> Option<Schedule> {
        if self.iterations >= self.max_iterations {
            if self.forced.is_none() {
                self.capped.store(true, Ordering::Relaxed);
            }
            return None;
        }
        if self.iterations > 0 {
            loop {
                match self.levels.last_mut() {
                    None => return None,
                    Some(l) => {
                        if let Some(nx) = l.next_allowed(self.bound) {
                            l.chosen = nx;
                            break;
                        } else {
                            self.levels.pop();
                        }
                    }
                }
            }
        }
        self.iterations += 1;
        self.steps = 0;
        TRACE.lock().unwrap().clear();
        Some(Schedule::new(0x5eed))
    }

    fn next_task(&mut self, runnable: &[&Task], current: Option<TaskId>, _is_yielding: bool) -> Option<TaskId> {
        // canonical order: the running task first when still runnable, then ascending ids
        let mut ids: Vec<TaskId> = runnable.iter().map(|t| t.id()).collect();
        ids.sort_by_key(|t| usize::from(*t));
        let current_runnable = current.map_or(false, |c| ids.contains(&c));
        if let Some(c) = current {
            if current_runnable {
                ids.retain(|t| *t != c);
                ids.insert(0, c);
            }
        }
        let choice = if self.steps < self.levels.len() {
            let l = &self.levels[self.steps];
            assert_eq!(l.options, ids, "divergence while replaying a schedule prefix (uncontrolled nondeterminism)");
            l.options[l.chosen]
        } else {
            let preempt_before = match self.levels.last() {
                Some(p) => p.preempt_before + p.cost(p.chosen),
                None => 0,
            };
            let chosen = match &self.forced {
                Some(f) => f.get(self.steps).cloned().unwrap_or(0).min(ids.len() - 1),
                None => 0,
            };
            self.levels.push(Level { options: ids.clone(), chosen, current_runnable, preempt_before });
            ids[chosen]
        };
        TRACE.lock().unwrap().push(self.levels[self.steps].chosen);
        self.steps += 1;
        MAX_STEPS.fetch_max(self.steps as u64, Ordering::Relaxed);
        Some(choice)
    }

    fn next_u64(&mut self) -> u64 {
        0
    }
}

// ---------------------------------------------------------------------------
// scenarios

pub struct Shared {
    pub exprs: Vec<Result<Arc<Expression<'static>>, String>>,
    pub inputs: Vec<Rcvar>,
    pub input_images: Vec<Value>,
}

/// one operation of a thread
#[derive(Clone, Debug)]
pub enum Op {
    /// search shared expression i on shared input j
    Search(usize, usize),
    /// compile a string through the default runtime and search input j
    CompileSearch(&'static str, usize),
}

pub struct Scenario {
    pub name: &'static str,
    /// largest pre-emption bound explored for this scenario (None = the tier's)
    pub max_bound: Option<usize>,
    pub exprs: Vec<&'static str>,
    /// expression indices compiled from the custom runtime
    pub custom: Vec<usize>,
    pub inputs: Vec<Value>,
    pub threads: Vec<Vec<Op>>,
}

fn custom_runtime() -> &'static Runtime {
    lazy_static::lazy_static! {
        static ref RT: &'static Runtime = {
            let mut rt = Runtime::new();
            rt.register_builtin_functions();
            // a function that yields in the middle of a call
            rt.register_function("yielding", Box::new(|args: &[Rcvar], _: &mut Context<'_>| {
                hook("call");
                Ok(args[0].clone())
            }));
            // a function that re-enters compile + search n levels deep and yields at the innermost level
            rt.register_function("nest", Box::new(|args: &[Rcvar], _: &mut Context<'_>| {
                let n = args.get(0).and_then(|a| a.as_number()).unwrap_or(0.0) as i64;
                if n <= 0 {
                    hook("call");
                    return Ok(Rcvar::new(Variable::String("bottom".into())));
                }
                let inner = custom_runtime().compile(&format!("nest(`{}`)", n - 1))?;
                inner.search(&args[0])
            }));
            // a CustomFunction (declared signature + closure) that yields while it is running
            rt.register_function("sigyield", Box::new(jmespath::functions::CustomFunction::new(
                jmespath::functions::Signature::new(vec![jmespath::functions::ArgumentType::Any], None),
                Box::new(|args: &[Rcvar], _: &mut Context<'_>| {
                    hook("call");
                    Ok(args[0].clone())
                }),
            )));
            rt.register_function("failing", Box::new(|args: &[Rcvar], ctx: &mut Context<'_>| {
                hook("call");
                let _ = args;
                Err(jmespath::JmespathError::from_ctx(ctx, jmespath::ErrorReason::Runtime(jmespath::RuntimeError::InvalidSlice)))
            }));
            Box::leak(Box::new(rt))
        };
    }
    *RT
}

pub fn scenarios(tier: Tier) -> Vec<Scenario> {
    let d = || vec![json!({"a": [{"k": 2, "v": "x"}, {"k": 1, "v": "y"}], "b": [1, [2]], "s": "text"}), json!([3, 1, 2])];
    let mut v = vec![
        Scenario {
            max_bound: None,
            name: "failing-calls-at-different-offsets",
            exprs: vec!["abs('x')", "        length(`1`)", "s && nosuch(s)"],
            custom: vec![],
            inputs: d(),
            threads: vec![vec![Op::Search(0, 0), Op::Search(1, 0)], vec![Op::Search(1, 0), Op::Search(2, 0)]],
        },
        Scenario {
            max_bound: None,
            name: "by-functions-with-nested-calls",
            exprs: vec!["sort_by(a, &to_string(k))[0].v", "max_by(@, &abs(@))", "max_by(a, &to_array(k))"],
            custom: vec![],
            inputs: d(),
            threads: vec![vec![Op::Search(0, 0), Op::Search(2, 0)], vec![Op::Search(1, 1), Op::Search(0, 0)]],
        },
        Scenario {
            max_bound: None,
            name: "projections-and-shared-literal",
            exprs: vec!["a[*].[`{\"k\":1}`, v]", "b[] | [0]", "a[?k > `1`].v | [0]"],
            custom: vec![],
            inputs: d(),
            threads: vec![vec![Op::Search(0, 0), Op::Search(1, 0)], vec![Op::Search(0, 0), Op::Search(2, 0)]],
        },
        Scenario {
            max_bound: None,
            name: "custom-runtime-yielding-functions",
            exprs: vec!["yielding(s)", "failing(s) || s", "[yielding(b), abs('q')]"],
            custom: vec![0, 1, 2],
            inputs: d(),
            threads: vec![vec![Op::Search(0, 0), Op::Search(1, 0)], vec![Op::Search(2, 0), Op::Search(0, 0)]],
        },
        Scenario {
            max_bound: None,
            name: "compile-in-threads",
            exprs: vec!["a[0].k"],
            custom: vec![],
            inputs: d(),
            threads: vec![vec![Op::CompileSearch("abs(b)", 0), Op::Search(0, 0)], vec![Op::CompileSearch("a[", 0), Op::CompileSearch("s", 0)]],
        },
    ];
    // deep expressions whose evaluations overlap: any per-process (instead of per-search)
    // resource accounting -- depth counters, scratch stacks -- shows up as a divergence
    lazy_static::lazy_static! {
        static ref DEEP: String = format!("a{}", ".a".repeat(700));
        static ref DEEP2: String = format!("{}a{}", "[".repeat(350), "]".repeat(350));
    }
    v.push(Scenario {
        max_bound: Some(1),
        name: "deep-expressions-overlap",
        exprs: vec![DEEP.as_str(), DEEP2.as_str()],
        custom: vec![],
        inputs: vec![json!({"a": {"a": 1}})],
        threads: if tier == Tier::Thorough { vec![vec![Op::Search(0, 0)], vec![Op::Search(1, 0)], vec![Op::Search(0, 0)]] } else { vec![vec![Op::Search(0, 0)], vec![Op::Search(1, 0)]] },
    });
    // two threads inside the same CustomFunction object of a shared runtime, and nested calls of it
    v.push(Scenario {
        max_bound: None,
        name: "custom-function-object-shared",
        exprs: vec!["sigyield(s)", "[sigyield(b), sigyield(sigyield(s))]"],
        custom: vec![0, 1],
        inputs: d(),
        threads: vec![vec![Op::Search(0, 0), Op::Search(1, 0)], vec![Op::Search(1, 0), Op::Search(0, 0)]],
    });
    // deep expressions *compiled* inside the threads (parsers running side by side)
    lazy_static::lazy_static! {
        static ref DEEPC1: String = format!("{}a{}", "(".repeat(200), ")".repeat(200));
        static ref DEEPC2: String = format!("{}a{}", "[".repeat(180), "]".repeat(180));
        static ref DEEPC3: String = format!("{}a", "!".repeat(150));
    }
    v.push(Scenario {
        max_bound: Some(1),
        name: "compile-deep-expressions-overlap",
        exprs: vec![],
        custom: vec![],
        inputs: vec![json!({"a": 1})],
        threads: vec![vec![Op::CompileSearch(DEEPC1.as_str(), 0), Op::CompileSearch(DEEPC3.as_str(), 0)], vec![Op::CompileSearch(DEEPC2.as_str(), 0), Op::CompileSearch(DEEPC1.as_str(), 0)]],
    });
    // searches that legitimately re-enter search (through a custom function), overlapping at their deepest point:
    // any per-process accounting of searches in flight shows up
    v.push(Scenario {
        max_bound: Some(1),
        name: "re-entrant-searches-overlap",
        exprs: vec!["nest(`40`)", "[nest(`20`), nest(`45`)]"],
        custom: vec![0, 1],
        inputs: vec![json!(1)],
        threads: vec![vec![Op::Search(0, 0)], vec![Op::Search(1, 0)]],
    });
    if tier == Tier::Thorough {
        for s in v.iter_mut().filter(|s| s.max_bound.is_none()) {
            let extra = s.threads[0].clone();
            s.threads.push(extra.into_iter().rev().collect());
        }
    }
    v
}

fn build_shared(s: &Scenario) -> Arc<Shared> {
    let exprs = s
        .exprs
        .iter()
        .enumerate()
        .map(|(i, e)| (if s.custom.contains(&i) { custom_runtime().compile(e) } else { jmespath::compile(e) }).map(Arc::new).map_err(|e| format!("shared expression did not compile: {:?}", e.reason)))
        .collect();
    Arc::new(Shared { exprs, inputs: s.inputs.iter().map(value_to_var).collect(), input_images: s.inputs.clone() })
}

fn run_op(sh: &Shared, op: &Op) -> String {
    let show = |r: Result<Rcvar, jmespath::JmespathError>| match r {
        Ok(v) => format!("ok {}", var_to_value(&v)),
        Err(e) => format!("err {:?}", e),
    };
    match op {
        Op::Search(i, j) => match &sh.exprs[*i] {
            Ok(x) => show(x.search(&sh.inputs[*j])),
            Err(e) => e.clone(),
        },
        Op::CompileSearch(e, j) => match jmespath::compile(e) {
            Ok(x) => show(x.search(&sh.inputs[*j])),
            Err(e) => format!("compile err {:?}", e),
        },
    }
}

/// observations of a sequential execution (thread by thread)
fn sequential(s: &Scenario) -> Vec<Vec<String>> {
    let sh = build_shared(s);
    s.threads.iter().map(|ops| ops.iter().map(|op| run_op(&sh, op)).collect()).collect()
}

lazy_static::lazy_static! {
    static ref OUTCOMES: Mutex<BTreeMap<String, u64>> = Mutex::new(BTreeMap::new());
    static ref FAIL: Mutex<Option<(Vec<usize>, String)>> = Mutex::new(None);
}

fn body(s: &'static Scenario, expected: &'static Vec<Vec<String>>) {
    let sh = build_shared(s);
    ARMED.store(true, Ordering::Relaxed);
    let hs: Vec<_> = s
        .threads
        .iter()
        .map(|ops| {
            let sh = sh.clone();
            let ops = ops.clone();
            shuttle::thread::spawn(move || ops.iter().map(|op| run_op(&sh, op)).collect::<Vec<String>>())
        })
        .collect();
    let got: Vec<Vec<String>> = hs.into_iter().map(|h| h.join().unwrap()).collect();
    ARMED.store(false, Ordering::Relaxed);
    let unchanged = sh.inputs.iter().zip(sh.input_images.iter()).all(|(r, img)| var_to_value(r) == *img);
    let key = format!("{:?}|inputs_unchanged={}", got, unchanged);
    *OUTCOMES.lock().unwrap().entry(key).or_insert(0) += 1;
    if (got != *expected || !unchanged) && FAIL.lock().unwrap().is_none() {
        let trace = TRACE.lock().unwrap().clone();
        *FAIL.lock().unwrap() = Some((trace, format!("{:?} inputs_unchanged={}", got, unchanged)));
    }
}

fn config() -> shuttle::Config {
    let mut c = shuttle::Config::new();
    c.stack_size = 4 << 20;
    c.max_steps = shuttle::MaxSteps::FailAfter(1_000_000);
    c.failure_persistence = shuttle::FailurePersistence::None;
    c
}

pub struct ScenarioResult {
    pub executions: Vec<(usize, u64)>,
    pub distinct_outcomes: usize,
    pub points: u64,
    pub failure: Option<(usize, Vec<usize>, String)>,
    pub capped: bool,
}

fn leak<T>(x: T) -> &'static T {
    Box::leak(Box::new(x))
}

pub fn explore(s: &'static Scenario, bounds: &[usize], labels: &[&str], cap: u64) -> ScenarioResult {
    let expected = leak(sequential(s));
    LABELS.store(mask_of(labels), Ordering::Relaxed);
    OUTCOMES.lock().unwrap().clear();
    *FAIL.lock().unwrap() = None;
    POINTS.store(0, Ordering::Relaxed);
    let mut executions = Vec::new();
    let mut failure = None;
    let mut capped = false;
    for &b in bounds {
        let sched = PbDfs::new(b, cap);
        let flag = sched.capped.clone();
        let runner = shuttle::Runner::new(sched, config());
        let n = match std::panic::catch_unwind(std::panic::AssertUnwindSafe(|| runner.run(move || body(s, expected)))) {
            Ok(n) => n,
            Err(p) => {
                // not a verdict: the executions of one scenario were not reproducible (divergence
                // while replaying a schedule prefix), e.g. state leaking from one execution into the next
                eprintln!("MACHINERY: schedule exploration of '{}' aborted: {}", s.name, crate::implx::panic_msg(p));
                std::process::exit(2);
            }
        };
        executions.push((b, n as u64));
        capped |= flag.load(Ordering::Relaxed);
        if let Some((trace, got)) = FAIL.lock().unwrap().clone() {
            failure = Some((b, trace, got));
            break;
        }
    }
    ScenarioResult { executions, distinct_outcomes: OUTCOMES.lock().unwrap().len(), points: POINTS.load(Ordering::Relaxed), failure, capped }
}

pub fn replay_schedule(s: &'static Scenario, labels: &[&str], choices: Vec<usize>) -> Option<String> {
    let expected = leak(sequential(s));
    LABELS.store(mask_of(labels), Ordering::Relaxed);
    *FAIL.lock().unwrap() = None;
    OUTCOMES.lock().unwrap().clear();
    let runner = shuttle::Runner::new(PbDfs::replay(choices), config());
    runner.run(move || body(s, expected));
    FAIL.lock().unwrap().clone().map(|(_, g)| g)
}

// ---------------------------------------------------------------------------
// first use of DEFAULT_RUNTIME: one fresh process per schedule

pub fn first_use_child(choices: Vec<usize>) -> i32 {
    install_hooks();
    LABELS.store(mask_of(&["default-runtime-before", "default-runtime-after", "compile", "search-enter"]), Ordering::Relaxed);
    let widths: &'static Mutex<Vec<usize>> = leak(Mutex::new(Vec::new()));
    struct Rec(PbDfs, &'static Mutex<Vec<usize>>);
    impl Scheduler for Rec {
        fn new_execution(&mut self) -> Option<Schedule> {
            self.0.new_execution()
        }
        fn next_task(&mut self, r: &[&Task], c: Option<TaskId>, y: bool) -> Option<TaskId> {
            self.1.lock().unwrap().push(r.len());
            self.0.next_task(r, c, y)
        }
        fn next_u64(&mut self) -> u64 {
            0
        }
    }
    let obs: &'static Mutex<Vec<Vec<String>>> = leak(Mutex::new(Vec::new()));
    let runner = shuttle::Runner::new(Rec(PbDfs::replay(choices), widths), config());
    runner.run(move || {
        ARMED.store(true, Ordering::Relaxed);
        let hs: Vec<_> = (0..2)
            .map(|t| {
                shuttle::thread::spawn(move || {
                    let exprs = if t == 0 { ["abs(a)", "length(a)"] } else { ["length(a)", "nosuch(a)"] };
                    exprs
                        .iter()
                        .map(|e| match jmespath::compile(e) {
                            Ok(x) => match x.search(value_to_var(&json!({"a": -2}))) {
                                Ok(v) => format!("ok {}", var_to_value(&v)),
                                Err(e) => format!("err {:?}", e.reason),
                            },
                            Err(e) => format!("compile err {:?}", e.reason),
                        })
                        .collect::<Vec<String>>()
                })
            })
            .collect();
        let got: Vec<Vec<String>> = hs.into_iter().map(|h| h.join().unwrap()).collect();
        ARMED.store(false, Ordering::Relaxed);
        *obs.lock().unwrap() = got;
    });
    println!("WIDTHS {:?}", widths.lock().unwrap());
    println!("TRACE {:?}", TRACE.lock().unwrap());
    println!("OBS {:?}", obs.lock().unwrap());
    0
}

fn explore_first_use(bound: usize, st: &mut Stats) -> Option<(Vec<usize>, String)> {
    let exe = std::env::current_exe().unwrap();
    let run = |choices: &[usize]| -> Option<(Vec<usize>, Vec<usize>, String)> {
        let arg = choices.iter().map(|c| c.to_string()).collect::<Vec<_>>().join(",");
        let o = std::process::Command::new(&exe).arg("C16-first").arg(if arg.is_empty() { "-".to_string() } else { arg }).output().ok()?;
        let t = String::from_utf8_lossy(&o.stdout).to_string();
        let parse = |tag: &str| -> Vec<usize> {
            t.lines().find(|l| l.starts_with(tag)).map(|l| l[tag.len()..].trim().trim_matches(|c| c == '[' || c == ']').split(',').filter_map(|x| x.trim().parse().ok()).collect()).unwrap_or_default()
        };
        let obs = t.lines().find(|l| l.starts_with("OBS ")).map(|l| l[4..].to_string()).unwrap_or_else(|| format!("child failed: status {:?}", o.status.code()));
        Some((parse("WIDTHS "), parse("TRACE "), obs))
    };
    let (w0, t0, expected) = run(&[])?;
    let mut stack: Vec<Vec<usize>> = vec![vec![]];
    let mut first = true;
    let _ = (w0, t0);
    while let Some(prefix) = stack.pop() {
        let (widths, trace, obs) = run(&prefix)?;
        st.count("first_use_processes", 1);
        st.outcome(&format!("first-use outcome {}", crate::engine::trunc(&obs, 60)));
        if obs != expected {
            return Some((trace, format!("expected {} got {}", expected, obs)));
        }
        if first {
            st.count("first_use_scheduling_points", widths.len() as u64);
            first = false;
        }
        // expand: alternatives at positions >= prefix.len(), bounded number of deviations from choice 0
        let devs = prefix.iter().filter(|c| **c != 0).count();
        if devs >= bound {
            continue;
        }
        for i in prefix.len()..widths.len() {
            for alt in 1..widths[i] {
                let mut p: Vec<usize> = trace[..i].to_vec();
                p.push(alt);
                stack.push(p);
            }
        }
    }
    None
}

// ---------------------------------------------------------------------------
// intercepted synchronisation: the harness built against a copy of the crate whose std::sync / std::thread /
// thread_local! uses resolve to shuttle's types (scripts/c16-intercept-build.sh).  Every lock, atomic and Once
// operation inside the crate is then a scheduling point.  Process-wide state (statics) would survive from one
// execution to the next inside one process, so every schedule runs in a fresh process: the parent owns the
// deviation-bounded search, a child replays one choice prefix, then takes the default (stay on the running
// thread) and reports the width of every scheduling point.

lazy_static::lazy_static! {
    static ref LONG_A: String = format!("{{name: people[0].name, first: people[0], pad: '{}'}}.name", "a".repeat(70));
    static ref LONG_B: String = format!("{{name: people[1].name, other: people[1], pad: '{}'}}.name", "b".repeat(70));
    static ref LONG_C: String = format!("length(people) == `2` && '{}' || 'never'", "c".repeat(70));
}

pub fn intercept_scenarios() -> Vec<Scenario> {
    let people = json!({"people": [{"name": "first-person"}, {"name": "second-person"}]});
    let mut v = vec![
        Scenario {
            max_bound: None,
            name: "compile-distinct-long-expressions",
            exprs: vec![],
            custom: vec![],
            inputs: vec![people.clone()],
            threads: vec![
                vec![Op::CompileSearch(LONG_A.as_str(), 0), Op::CompileSearch(LONG_B.as_str(), 0), Op::CompileSearch(LONG_A.as_str(), 0)],
                vec![Op::CompileSearch(LONG_B.as_str(), 0), Op::CompileSearch(LONG_C.as_str(), 0), Op::CompileSearch(LONG_B.as_str(), 0)],
            ],
        },
        Scenario {
            max_bound: None,
            name: "to_number-on-distinct-long-strings",
            exprs: vec!["to_number(@)", "[to_number(@), to_number(@)]"],
            custom: vec![],
            inputs: vec![json!("1234567890123456.25"), json!("6543210987654321.75"), json!("not-a-number-but-long-enough")],
            threads: vec![
                vec![Op::Search(0, 0), Op::Search(0, 0), Op::Search(1, 0)],
                vec![Op::Search(0, 1), Op::Search(0, 1), Op::Search(0, 2), Op::Search(0, 1)],
            ],
        },
        Scenario {
            max_bound: None,
            name: "sort-and-by-functions-on-shared-input",
            exprs: vec!["sort_by(a, &k)[*].v", "max_by(a, &k).v", "sort(@)", "map(&to_string(@), @)"],
            custom: vec![],
            inputs: vec![json!({"a": [{"k": 2, "v": "x"}, {"k": 1, "v": "y"}, {"k": 3, "v": "z"}]}), json!([3, 1, 2])],
            threads: vec![vec![Op::Search(0, 0), Op::Search(2, 1), Op::Search(1, 0)], vec![Op::Search(1, 0), Op::Search(3, 1), Op::Search(0, 0)]],
        },
    ];
    // a process that has already compiled K distinct expressions (bounded caches fill up and get evicted / cleared
    // around sizes like 128 and 256), then two threads compile a known and a new expression each
    for k in [127usize, 255] {
        let name: &'static str = Box::leak(format!("compile-under-cache-pressure-{}", k).into_boxed_str());
        v.push(Scenario {
            max_bound: None,
            name,
            exprs: vec![],
            custom: vec![],
            inputs: vec![people.clone()],
            threads: vec![
                vec![Op::CompileSearch("people[0].name", 0), Op::CompileSearch("people[1].name || 'fresh-one'", 0), Op::CompileSearch("people[0].name", 0)],
                vec![Op::CompileSearch("people[1].name", 0), Op::CompileSearch("people[0].name || 'fresh-two'", 0), Op::CompileSearch("people[0].name", 0)],
            ],
        });
    }
    // one thread compiles an expression it has compiled before while another compiles K new ones (small fixed-size
    // memos hand out slots that the churn overwrites)
    for k in [40usize, 300] {
        let name: &'static str = Box::leak(format!("compile-hot-while-churning-{}", k).into_boxed_str());
        let churn: Vec<Op> = (0..k).map(|i| Op::CompileSearch(Box::leak(format!("'churn-{}' || people[{}].name", i, i % 2).into_boxed_str()), 0)).collect();
        v.push(Scenario {
            max_bound: Some(2),
            name,
            exprs: vec![],
            custom: vec![],
            inputs: vec![people.clone()],
            threads: vec![vec![Op::CompileSearch("people[0].name", 0), Op::CompileSearch("people[1].name", 0), Op::CompileSearch("people[0].name", 0)], churn],
        });
    }
    // the hook-level scenarios once more, now with the crate's own synchronisation visible
    for s in scenarios(Tier::Quick) {
        v.push(s);
    }
    v
}

/// child: one execution of one scenario in this (fresh) process
pub fn intercept_child(name: &str, mode: &str) -> i32 {
    install_hooks();
    LABELS.store(mask_of(&["search-enter", "compile", "call", "error"]), Ordering::Relaxed);
    let scs: &'static Vec<Scenario> = leak(intercept_scenarios());
    let s = match scs.iter().find(|s| s.name == name) {
        Some(s) => s,
        None => return 2,
    };
    let sequential_mode = mode == "seq";
    let choices: Vec<usize> = if sequential_mode { vec![] } else { mode.split(',').filter_map(|x| x.parse().ok()).collect() };
    let widths: &'static Mutex<Vec<usize>> = leak(Mutex::new(Vec::new()));
    struct Rec(PbDfs, &'static Mutex<Vec<usize>>);
    impl Scheduler for Rec {
        fn new_execution(&mut self) -> Option<Schedule> {
            self.0.new_execution()
        }
        fn next_task(&mut self, r: &[&Task], c: Option<TaskId>, y: bool) -> Option<TaskId> {
            self.1.lock().unwrap().push(r.len());
            self.0.next_task(r, c, y)
        }
        fn next_u64(&mut self) -> u64 {
            0
        }
    }
    let obs: &'static Mutex<String> = leak(Mutex::new(String::new()));
    let runner = shuttle::Runner::new(Rec(PbDfs::replay(choices), widths), config());
    runner.run(move || {
        // everything that touches the crate happens inside the execution (intercepted primitives need one)
        if s.name.starts_with("compile-hot-while-churning-") {
            for e in ["people[0].name", "people[1].name"] {
                let _ = jmespath::compile(e);
            }
        }
        if let Some(k) = s.name.strip_prefix("compile-under-cache-pressure-").and_then(|k| k.parse::<usize>().ok()) {
            // the known expressions first, then distinct fillers, on the main task (no alternatives yet)
            for e in ["people[0].name", "people[1].name"] {
                let _ = jmespath::compile(e);
            }
            for i in 0..k.saturating_sub(2) {
                let _ = jmespath::compile(&format!("filler_{}[{}]", i, i % 7));
            }
        }
        let sh = build_shared(s);
        let got: Vec<Vec<String>> = if sequential_mode {
            s.threads.iter().map(|ops| ops.iter().map(|op| run_op(&sh, op)).collect()).collect()
        } else {
            ARMED.store(true, Ordering::Relaxed);
            let hs: Vec<_> = s
                .threads
                .iter()
                .map(|ops| {
                    let sh = sh.clone();
                    let ops = ops.clone();
                    shuttle::thread::spawn(move || ops.iter().map(|op| run_op(&sh, op)).collect::<Vec<String>>())
                })
                .collect();
            let g = hs.into_iter().map(|h| h.join().unwrap()).collect();
            ARMED.store(false, Ordering::Relaxed);
            g
        };
        let unchanged = sh.inputs.iter().zip(sh.input_images.iter()).all(|(r, img)| var_to_value(r) == *img);
        *obs.lock().unwrap() = format!("{:?} inputs_unchanged={}", got, unchanged);
    });
    println!("WIDTHS {:?}", widths.lock().unwrap());
    println!("TRACE {:?}", TRACE.lock().unwrap());
    println!("OBS {}", obs.lock().unwrap());
    0
}

pub struct InterceptResult {
    pub name: String,
    pub processes: u64,
    pub scheduling_points: u64,
    pub max_width: usize,
    pub distinct_outcomes: usize,
    pub capped: bool,
    pub failure: Option<(Vec<usize>, String, String)>,
    pub machinery: Option<String>,
}

/// parent: deviation-bounded search over the schedules of one scenario, one fresh child process per schedule,
/// level by level (all prefixes of a level in parallel)
pub fn explore_intercepted(bin: &str, s: &Scenario, bound: usize, cap: u64) -> InterceptResult {
    use rayon::prelude::*;
    let run = |mode: &str| -> Result<(Vec<usize>, Vec<usize>, String), String> {
        let o = std::process::Command::new(bin).arg("C16-intercept-child").arg(s.name).arg(mode).output().map_err(|e| e.to_string())?;
        let t = String::from_utf8_lossy(&o.stdout).to_string();
        let parse = |tag: &str| -> Vec<usize> {
            t.lines().find(|l| l.starts_with(tag)).map(|l| l[tag.len()..].trim().trim_matches(|c| c == '[' || c == ']').split(',').filter_map(|x| x.trim().parse().ok()).collect()).unwrap_or_default()
        };
        match t.lines().find(|l| l.starts_with("OBS ")) {
            Some(l) => Ok((parse("WIDTHS "), parse("TRACE "), l[4..].to_string())),
            // the child died: a panic inside the explored code (or the explorer) -- reported with its last words
            None => Err(format!("child status {:?}: {}", o.status.code(), String::from_utf8_lossy(&o.stderr).lines().rev().find(|l| !l.trim().is_empty()).unwrap_or("").chars().take(300).collect::<String>())),
        }
    };
    let mut res = InterceptResult { name: s.name.to_string(), processes: 0, scheduling_points: 0, max_width: 0, distinct_outcomes: 0, capped: false, failure: None, machinery: None };
    let expected = match run("seq") {
        Ok((_, _, o)) => o,
        Err(e) => {
            res.machinery = Some(format!("sequential baseline of '{}' did not run: {}", s.name, e));
            return res;
        }
    };
    res.processes += 1;
    let mut outcomes = std::collections::BTreeSet::new();
    let mut frontier: Vec<Vec<usize>> = vec![vec![]];
    while !frontier.is_empty() {
        if res.processes + frontier.len() as u64 > cap {
            res.capped = true;
            frontier.truncate((cap.saturating_sub(res.processes)) as usize);
            if frontier.is_empty() {
                break;
            }
        }
        let results: Vec<(Vec<usize>, Result<(Vec<usize>, Vec<usize>, String), String>)> = frontier
            .par_iter()
            .map(|p| {
                let arg = if p.is_empty() { "-".to_string() } else { p.iter().map(|c| c.to_string()).collect::<Vec<_>>().join(",") };
                (p.clone(), run(&arg))
            })
            .collect();
        let mut next = Vec::new();
        for (prefix, r) in results {
            res.processes += 1;
            let (widths, trace, obs) = match r {
                Ok(x) => x,
                Err(e) => {
                    // a crash under a particular schedule is an observation that differs from the sequential one
                    if res.failure.is_none() {
                        res.failure = Some((prefix.clone(), expected.clone(), format!("the execution died: {}", e)));
                    }
                    continue;
                }
            };
            if prefix.is_empty() {
                res.scheduling_points = widths.len() as u64;
            }
            res.max_width = res.max_width.max(widths.iter().cloned().max().unwrap_or(0));
            outcomes.insert(obs.clone());
            if obs != expected && res.failure.is_none() {
                res.failure = Some((trace.clone(), expected.clone(), obs.clone()));
            }
            let devs = prefix.iter().filter(|c| **c != 0).count();
            if devs >= bound {
                continue;
            }
            for i in prefix.len()..widths.len() {
                for alt in 1..widths[i] {
                    let mut p: Vec<usize> = trace[..i].to_vec();
                    p.push(alt);
                    next.push(p);
                }
            }
        }
        if res.failure.is_some() {
            break;
        }
        frontier = next;
    }
    res.distinct_outcomes = outcomes.len();
    res
}

/// supporting only: the same bodies free-running on real OS threads
fn real_threads_smoke(s: &'static Scenario, rounds: usize, copies: usize) -> bool {
    let expected: Vec<Vec<String>> = sequential(s).into_iter().cycle().take(s.threads.len() * copies).collect();
    for _ in 0..rounds {
        let sh = build_shared(s);
        let hs: Vec<_> = s
            .threads
            .iter()
            .cycle()
            .take(s.threads.len() * copies)
            .map(|ops| {
                let sh = sh.clone();
                let ops = ops.clone();
                std::thread::spawn(move || ops.iter().map(|op| run_op(&sh, op)).collect::<Vec<String>>())
            })
            .collect();
        let got: Vec<Vec<String>> = hs.into_iter().map(|h| h.join().unwrap()).collect();
        if got != expected {
            return false;
        }
    }
    true
}

/// Child mode: explore one scenario (bounded, then coarse unbounded, then the
/// supporting real-thread smoke) and print one JSON line.
pub fn scenario_child(tier: Tier, name: &str) -> i32 {
    install_hooks();
    let bounds: Vec<usize> = tier.pick(vec![0, 1, 2, 3], vec![0, 1, 2, 3]);
    let full: Vec<&str> = vec!["search-enter", "interpret", "call", "validate", "error", "get_function", "compile"];
    let coarse: Vec<&str> = vec!["search-enter", "call", "error"];
    let scs: &'static Vec<Scenario> = leak(scenarios(tier));
    let s = match scs.iter().find(|s| s.name == name) {
        Some(s) => s,
        None => return 2,
    };
    let sb: Vec<usize> = bounds.iter().cloned().filter(|b| s.max_bound.map_or(true, |m| *b <= m)).collect();
    let deep = s.max_bound.is_some();
    let labels_here: Vec<&str> = if deep { vec!["interpret"] } else { full.clone() };
    let r = explore(s, &sb, &labels_here, tier.pick(200_000, 3_000_000));
    let mut out = json!({
        "name": s.name,
        "executions_per_preemption_bound": r.executions.iter().map(|(b, n)| json!({"bound": b, "executions": n})).collect::<Vec<_>>(),
        "scheduling_points_hit": r.points,
        "distinct_outcome_vectors": r.distinct_outcomes,
        "capped": r.capped,
        "labels": labels_here,
        "expected": format!("{:?}", sequential(s)),
        "threads": s.threads.iter().map(|t| format!("{:?}", t)).collect::<Vec<_>>(),
        "expressions": s.exprs.iter().map(|e| crate::engine::trunc(e, 60)).collect::<Vec<_>>(),
    });
    if let Some((b, trace, got)) = r.failure {
        out["failure"] = json!({"bound": b, "choices": trace, "got": got, "labels": labels_here});
    } else if !deep {
        let r2 = explore(s, &[usize::MAX], &coarse, tier.pick(100_000, 1_000_000));
        let n2: u64 = r2.executions.iter().map(|x| x.1).sum();
        out["unbounded_dfs_coarse_labels"] = json!({"executions": n2, "capped": r2.capped, "distinct_outcome_vectors": r2.distinct_outcomes, "scheduling_points_hit": r2.points});
        if let Some((_, trace, got)) = r2.failure {
            out["failure"] = json!({"bound": "unbounded", "choices": trace, "got": got, "labels": coarse});
        }
    }
    out["real_threads_smoke_supporting_only"] = json!(real_threads_smoke(s, tier.pick(50, 500), if deep { 8 } else { 1 }));
    out["max_steps_in_one_execution"] = json!(MAX_STEPS.load(Ordering::Relaxed));
    println!("RESULT {}", out);
    0
}

/// Supporting leg (sampling, NOT deciding): real OS threads hammer the shared default runtime
/// with long expressions (compile + search), long numeric strings through to_number, by-functions
/// and deep expressions; every observation must equal the sequentially computed one.  This is the
/// only leg that can see a race between std locks / atomics inside one hook-free step.
pub fn parallel_stress(threads: usize, iterations: usize) -> Option<String> {
    let exprs: Vec<String> = vec![
        "people[?age > `30` && name != 'nobody-in-particular'].{name: name, age: age, tags: tags[*]} | [0].name".into(),
        "sort_by(people, &to_number(balance))[*].{n: name, b: to_number(balance)} | [-1].b || 'no-balance-at-all'".into(),
        "people[*].tags[] | sort(@) | join(', ', @) | length(@) | to_string(@) | to_number(@) | abs(@) | ceil(@)".into(),
        "max_by(people, &to_number(balance)).name || min_by(people, &age).name || 'nobody-in-particular'".into(),
        "sum(people[*].to_number(balance)) | floor(@) | [@, @, @] | reverse(@) | [0]".into(),
        format!("a{}", ".a".repeat(150)),
        "people[*].to_number(balance) | [sum(@), max(@), min(@)] | map(&to_string(@), @) | join('/', @)".into(),
    ];
    let docs: Vec<Value> = (0..threads)
        .map(|t| {
            json!({"a": {"a": 1}, "people": (0..6).map(|i| json!({"name": format!("p{}-{}", t, i), "age": 25 + ((i * 7 + t) % 30), "balance": format!("{}.{:015}", 1000 * (t + 1) + (i / 2) * 13, ((i / 2) * 97 + t) % 1000), "tags": [format!("t{}", (i + t) % 3), "common"]})).collect::<Vec<_>>()})
        })
        .collect();
    let expected: Vec<Vec<String>> = docs
        .iter()
        .map(|d| {
            exprs.iter().map(|e| match jmespath::compile(e) {
                Ok(x) => match x.search(value_to_var(d)) { Ok(v) => format!("ok {}", var_to_value(&v)), Err(e) => format!("err {:?}", e.reason) },
                Err(e) => format!("compile err {:?}", e.reason),
            }).collect()
        })
        .collect();
    let exprs = Arc::new(exprs);
    let shared: Arc<Vec<Arc<Expression<'static>>>> = Arc::new(exprs.iter().map(|e| Arc::new(jmespath::compile(e).unwrap())).collect());
    let hs: Vec<_> = (0..threads)
        .map(|t| {
            let exprs = exprs.clone();
            let shared = shared.clone();
            let doc = docs[t].clone();
            let want = expected[t].clone();
            std::thread::spawn(move || -> Option<String> {
                let rc = value_to_var(&doc);
                for it in 0..iterations {
                    for (k, e) in exprs.iter().enumerate() {
                        // alternately a fresh compile through the default runtime and the shared expression
                        let got = if it % 2 == 0 {
                            match jmespath::compile(e) {
                                Ok(x) => {
                                    if x.as_str() != e { return Some(format!("compile({:?}) returned an expression for {:?}", e, x.as_str())); }
                                    match x.search(&rc) { Ok(v) => format!("ok {}", var_to_value(&v)), Err(e) => format!("err {:?}", e.reason) }
                                }
                                Err(e) => format!("compile err {:?}", e.reason),
                            }
                        } else {
                            match shared[k].search(&rc) { Ok(v) => format!("ok {}", var_to_value(&v)), Err(e) => format!("err {:?}", e.reason) }
                        };
                        if got != want[k] {
                            return Some(format!("thread {} iteration {} expression {:?}: expected {} got {}", t, it, crate::engine::trunc(e, 80), want[k], got));
                        }
                    }
                }
                None
            })
        })
        .collect();
    let mut bad = None;
    for h in hs {
        match h.join() {
            Ok(Some(b)) => bad = bad.or(Some(b)),
            Ok(None) => {}
            Err(_) => bad = bad.or(Some("a stress thread panicked".into())),
        }
    }
    bad
}

/// Supporting leg (sampling): expressions compiled on one thread are handed to another thread and dropped
/// there while the first thread compiles expressions spelling the same literals again -- ownership that
/// crosses threads (the drop of an `Arc` is not a scheduling point for the explorer).
pub fn handoff_stress(pairs: usize, iterations: usize) -> Option<String> {
    let exprs = ["a == `{\"k\": [1, 2, 3]}`", "[`{\"k\": [1, 2, 3]}`, `\"shared literal text\"`]", "b || `\"shared literal text\"`", "`[1.5, \"x\"]` | [0]"];
    let doc = json!({"a": {"k": [1, 2, 3]}, "b": null});
    let expected: Vec<String> = exprs.iter().map(|e| format!("{}", var_to_value(&jmespath::compile(e).unwrap().search(value_to_var(&doc)).unwrap()))).collect();
    let mut hs = Vec::new();
    for p in 0..pairs {
        let (tx, rx) = std::sync::mpsc::sync_channel::<(usize, Expression<'static>)>(4);
        let want = expected.clone();
        let d = doc.clone();
        hs.push(std::thread::spawn(move || -> Option<String> {
            let rc = value_to_var(&d);
            for (k, x) in rx {
                let got = match x.search(&rc) { Ok(v) => format!("{}", var_to_value(&v)), Err(e) => format!("err {:?}", e.reason) };
                if got != want[k] {
                    return Some(format!("pair {}: a handed-over expression {:?} gave {} instead of {}", p, exprs[k], got, want[k]));
                }
                drop(x);
            }
            None
        }));
        hs.push(std::thread::spawn(move || -> Option<String> {
            for it in 0..iterations {
                let k = (it + p) % exprs.len();
                match jmespath::compile(exprs[k]) {
                    Ok(x) => {
                        if tx.send((k, x)).is_err() {
                            return Some("the receiving thread stopped".into());
                        }
                    }
                    Err(e) => return Some(format!("compile({:?}) failed: {:?}", exprs[k], e.reason)),
                }
            }
            None
        }));
    }
    let mut bad = None;
    for h in hs {
        match h.join() {
            Ok(Some(b)) => bad = bad.or(Some(b)),
            Ok(None) => {}
            Err(p) => bad = bad.or(Some(format!("a thread panicked: {}", crate::implx::panic_msg(p)))),
        }
    }
    bad
}

pub fn run(tier: Tier, obligations: u64) -> i32 {
    let mut rep = Report::new("C16", tier);
    let mut st = Stats::default();
    st.count("type_level_obligations_discharged", obligations);
    let bounds: Vec<usize> = tier.pick(vec![0, 1, 2, 3], vec![0, 1, 2, 3]);
    let names: Vec<&'static str> = scenarios(tier).iter().map(|s| s.name).collect();
    // one child process per scenario (shuttle runs an exploration on one OS thread; the
    // scenarios are independent, and separate processes keep their global state apart)
    let exe = std::env::current_exe().unwrap();
    let results: Vec<(String, Option<Value>, String)> = {
        use rayon::prelude::*;
        names
            .par_iter()
            .map(|n| {
                let o = std::process::Command::new(&exe).arg("C16-scenario").arg(tier.name()).arg(n).output().expect("spawn scenario child");
                let txt = String::from_utf8_lossy(&o.stdout).to_string();
                let v = txt.lines().find(|l| l.starts_with("RESULT ")).and_then(|l| serde_json::from_str::<Value>(&l[7..]).ok());
                (n.to_string(), v, format!("status {:?}: {}", o.status.code(), String::from_utf8_lossy(&o.stderr).lines().last().unwrap_or("")))
            })
            .collect()
    };
    let mut table = serde_json::Map::new();
    for (name, v, diag) in results {
        let v = match v {
            Some(v) => v,
            None => {
                eprintln!("MACHINERY: scenario child '{}' gave no result ({})", name, diag);
                return 2;
            }
        };
        let total: u64 = v["executions_per_preemption_bound"].as_array().unwrap().iter().map(|e| e["executions"].as_u64().unwrap()).sum();
        let pre: u64 = v["executions_per_preemption_bound"].as_array().unwrap().iter().filter(|e| e["bound"].as_u64().unwrap_or(0) > 0).map(|e| e["executions"].as_u64().unwrap()).sum();
        let n2 = v["unbounded_dfs_coarse_labels"]["executions"].as_u64().unwrap_or(0);
        st.states += total + n2;
        st.validated += total + n2;
        st.evaluations += total + n2;
        st.nontrivial += pre + n2;
        st.transitions += v["scheduling_points_hit"].as_u64().unwrap_or(0) + v["unbounded_dfs_coarse_labels"]["scheduling_points_hit"].as_u64().unwrap_or(0);
        st.capped |= v["capped"].as_bool().unwrap_or(false);
        if v["unbounded_dfs_coarse_labels"]["capped"].as_bool().unwrap_or(false) {
            st.count("coarse_unbounded_capped", 1);
        }
        st.outcome(&format!("{}: {} distinct outcome vector(s)", name, v["distinct_outcome_vectors"]));
        if let Some(f) = v.get("failure") {
            st.violate(Violation {
                key: format!("C16/schedule/{}", name),
                check: "schedules".into(),
                case: json!({"kind": "schedule", "scenario": name, "tier": tier.name(), "bound": f["bound"], "labels": f["labels"], "choices": f["choices"]}),
                expected: v["expected"].as_str().unwrap_or("").to_string(),
                actual: f["got"].as_str().unwrap_or("").to_string(),
            });
        }
        if v["real_threads_smoke_supporting_only"] == json!(false) {
            st.violate(Violation { key: format!("C16/real-threads/{}", name), check: "real-threads".into(), case: json!({"kind": "real-threads", "scenario": name}), expected: "sequential results".into(), actual: "divergent".into() });
        }
        st.sample(|| json!({"scenario": name, "threads": v["threads"], "expressions": v["expressions"]}));
        table.insert(name, v);
    }
    // supporting, sampling leg on real threads
    {
        let (th, it) = tier.pick((8, 1500), (16, 20000));
        let bad = parallel_stress(th, it);
        st.count("real_thread_stress_searches_supporting_only", (th * it * 7) as u64);
        if let Some(b) = bad {
            st.violate(Violation { key: "C16/real-threads/stress".into(), check: "real-threads".into(), case: json!({"kind": "real-threads-stress", "threads": th, "iterations": it}), expected: "every thread observes its sequential results".into(), actual: b });
        }
    }
    {
        let (pairs, it) = tier.pick((4, 20_000), (8, 200_000));
        let bad = handoff_stress(pairs, it);
        st.count("real_thread_handoffs_supporting_only", (pairs * it) as u64);
        if let Some(b) = bad {
            st.violate(Violation { key: "C16/real-threads/handoff".into(), check: "real-threads".into(), case: json!({"kind": "real-threads-handoff", "pairs": pairs, "iterations": it}), expected: "expressions can be dropped on another thread while their literals are compiled again".into(), actual: b });
        }
    }
    // intercepted synchronisation (fresh process per schedule); the binary is built by scripts/check-C16.sh
    let mut intercept_table = serde_json::Map::new();
    match std::env::var("JPV_INTERCEPT_BIN") {
        Ok(bin) if std::path::Path::new(&bin).exists() => {
            let (bound, cap) = tier.pick((3usize, 20_000u64), (5usize, 400_000u64));
            for s in intercept_scenarios() {
                let r = explore_intercepted(&bin, &s, s.max_bound.map_or(bound, |m| m.min(bound)), cap);
                if let Some(m) = &r.machinery {
                    eprintln!("MACHINERY: {}", m);
                    return 2;
                }
                st.states += r.processes;
                st.validated += r.processes;
                st.evaluations += r.processes;
                st.nontrivial += r.processes.saturating_sub(2);
                st.transitions += r.scheduling_points * r.processes;
                st.count("intercepted_fresh_process_schedules", r.processes);
                st.capped |= r.capped;
                st.outcome(&format!("intercepted {}: {} distinct outcome vector(s)", r.name, r.distinct_outcomes));
                intercept_table.insert(r.name.clone(), json!({"deviation_bound": bound, "schedules": r.processes, "scheduling_points_on_the_default_schedule": r.scheduling_points, "max_runnable": r.max_width, "distinct_outcome_vectors": r.distinct_outcomes, "capped": r.capped}));
                if let Some((choices, want, got)) = r.failure {
                    st.violate(Violation {
                        key: format!("C16/intercepted-schedule/{}", r.name),
                        check: "intercepted-schedules".into(),
                        case: json!({"kind": "intercepted-schedule", "scenario": r.name, "choices": choices}),
                        expected: want,
                        actual: got,
                    });
                }
            }
        }
        _ => {
            let why = std::env::var("JPV_INTERCEPT_NOTE").unwrap_or_else(|_| "JPV_INTERCEPT_BIN not set".into());
            println!("note: the intercepted-synchronisation leg was not run ({})", why);
            st.count("intercepted_leg_not_available", 1);
            rep.assumptions.push(format!("intercepted-synchronisation leg not run: {}", why));
        }
    }
    // first use of the default runtime
    install_hooks();
    if let Some((trace, what)) = explore_first_use(tier.pick(2, 3), &mut st) {
        st.violate(Violation { key: "C16/first-use".into(), check: "first-use".into(), case: json!({"kind": "first-use", "choices": trace}), expected: "sequential observations".into(), actual: what });
    }
    let fu = st.counters.get("first_use_processes").cloned().unwrap_or(0);
    st.states += fu;
    st.validated += fu;
    st.evaluations += fu;
    rep.guard("pre-empting schedules were explored", st.nontrivial > 100);
    rep.guard("fresh-process first-use schedules were explored", fu > 5);
    rep.guard("type-level obligations discharged", obligations > 0);
    rep.rule = "leg 1 (compile time): Send + Sync obligations on the public types under --features sync and the library under -F unsafe_code; leg 2: for each scenario (2-3 threads on shared Arc<Expression> / shared Arc inputs, chosen to collide: failing calls at different offsets, by-functions with nested calls, a shared literal, a custom runtime whose functions yield, compile inside threads, deep expressions whose evaluations overlap) every schedule with at most c pre-emptions for c = 0,1,2(,3) over the hook points {search-enter, interpret, call, validate, error, get_function, compile}, plus unbounded DFS over the coarse points {search-enter, call, error}; first use of DEFAULT_RUNTIME: one fresh process per schedule with bounded deviations; leg 2c (intercepted synchronisation): the harness built against a rewritten copy of the crate in which std::sync / std::thread / thread_local! resolve to shuttle's types, so that every lock, atomic and Once operation inside the crate is a scheduling point -- 16 scenarios (deep expressions compiled side by side, two threads inside one CustomFunction object, one thread re-compiling known expressions while another compiles 40 / 300 new ones, concurrent compiles of different long expressions, to_number on different long strings, sorts / by-functions on shared input, compiles after 127 / 255 distinct expressions were compiled (bounded caches), the hook-level scenarios again incl. searches that re-enter search 40 levels deep), every schedule with at most d deviations from staying on the running thread, one fresh process per schedule. Oracle: every thread's observations (values / full error structs) equal the sequential run; inputs unchanged. states = executions; transitions = scheduling points hit; non-trivial = executions with at least one pre-emption allowed".into();
    rep.bounds = json!({"preemption_bounds": bounds, "scenarios": table, "intercepted": intercept_table});
    rep.assumptions.extend(vec![
        "leg 2: steps between two hook points are atomic to the explorer; leg 2c: steps between two synchronisation operations of the crate are; Arc counts are std's and memory orderings weaker than sequential consistency are not modelled by shuttle".into(),
        "the lazy initialiser of DEFAULT_RUNTIME contains no hook point (std::sync::Once is trusted)".into(),
        "a capped unbounded DFS on the coarse labels is reported as capped; the pre-emption bounded explorations are complete unless 'capped' says otherwise".into(),
    ]);
    rep.exhaustive = true;
    rep.stats = st;
    rep.finish()
}

pub fn replay(case: &Value) -> Option<(String, bool)> {
    install_hooks();
    match case["kind"].as_str()? {
        "schedule" => {
            let scs: &'static Vec<Scenario> = leak(scenarios(Tier::Thorough));
            let name = case["scenario"].as_str()?;
            let s = scs.iter().find(|s| s.name == name)?;
            // thorough scenarios carry one more thread; fall back to quick when the trace came from quick
            let choices: Vec<usize> = case["choices"].as_array()?.iter().map(|v| v.as_u64().unwrap() as usize).collect();
            let labels: Vec<String> = case["labels"].as_array()?.iter().map(|v| v.as_str().unwrap().to_string()).collect();
            let lrefs: Vec<&str> = labels.iter().map(|s| s.as_str()).collect();
            let qs: &'static Vec<Scenario> = leak(scenarios(Tier::Quick));
            let q = qs.iter().find(|s| s.name == name)?;
            let r = if case["tier"] == json!("thorough") { replay_schedule(s, &lrefs, choices) } else { replay_schedule(q, &lrefs, choices) };
            Some(match r {
                Some(g) => (format!("divergent observations: {}", g), true),
                None => ("schedule gives the sequential observations".into(), false),
            })
        }
        "intercepted-schedule" => {
            let bin = std::env::var("JPV_INTERCEPT_BIN").ok()?;
            let name = case["scenario"].as_str()?;
            let choices: Vec<String> = case["choices"].as_array()?.iter().map(|v| v.as_u64().unwrap().to_string()).collect();
            let run = |mode: &str| -> String {
                let o = std::process::Command::new(&bin).arg("C16-intercept-child").arg(name).arg(mode).output().expect("spawn");
                String::from_utf8_lossy(&o.stdout).lines().find(|l| l.starts_with("OBS ")).map(|l| l[4..].to_string()).unwrap_or_else(|| format!("the execution died (status {:?})", o.status.code()))
            };
            let want = run("seq");
            let got = run(&if choices.is_empty() { "-".to_string() } else { choices.join(",") });
            Some((format!("sequential: {} ; under the recorded schedule: {}", want, got), want != got))
        }
        "real-threads-handoff" => {
            let r = handoff_stress(case["pairs"].as_u64()? as usize, case["iterations"].as_u64()? as usize);
            Some(match r {
                Some(b) => (b, true),
                None => ("no divergence in this (sampled) run".into(), false),
            })
        }
        "real-threads-stress" => {
            let r = parallel_stress(case["threads"].as_u64()? as usize, case["iterations"].as_u64()? as usize);
            Some(match r {
                Some(b) => (b, true),
                None => ("no divergence in this (sampled) run".into(), false),
            })
        }
        _ => None,
    }
}
