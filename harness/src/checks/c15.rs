//! C15 -- calls follow the runtime registry; custom functions receive evaluated arguments.
use crate::engine::{Report, Stats, Tier, Violation};
use crate::implx::{classify, guarded, value_to_var, var_to_value, IClass, EXPREF_MARK};
use crate::reval::{self, ErrClass, Eval, Funcs, RErr, Ty, R, V};
use crate::rparse;
use jmespath::functions::{ArgumentType, CustomFunction, Signature};
use jmespath::{Context, Rcvar, Runtime, Variable};
use serde_json::{json, Value};
use stateright::{Checker, Model, Property};
use std::cell::RefCell;
use std::collections::BTreeMap;

pub const NAMES: [&str; 4] = ["abs", "foo", "normalize_whitespace_left", "normalize_whitespace_right"];

#[derive(Clone, Copy, Debug, PartialEq, Eq, Hash)]
pub enum Kind {
    A,
    B,
    Sig,
}

#[derive(Clone, Copy, Debug, PartialEq, Eq, Hash)]
pub enum Op {
    Register(u8, Kind),
    Deregister(u8),
    Builtins,
}

pub fn all_ops() -> Vec<Op> {
    let mut v = Vec::new();
    for n in 0..NAMES.len() as u8 {
        for k in [Kind::A, Kind::B, Kind::Sig] {
            v.push(Op::Register(n, k));
        }
    }
    for n in 0..NAMES.len() as u8 {
        v.push(Op::Deregister(n));
    }
    v.push(Op::Builtins);
    v
}

#[derive(Clone, Copy, Debug, PartialEq, Eq)]
pub enum Entry {
    Builtin,
    Custom(Kind),
}

/// R-reg: the reference registry
pub fn ref_registry(h: &[Op]) -> BTreeMap<String, Entry> {
    let mut m: BTreeMap<String, Entry> = BTreeMap::new();
    for op in h {
        match op {
            Op::Register(n, k) => {
                m.insert(NAMES[*n as usize].to_string(), Entry::Custom(*k));
            }
            Op::Deregister(n) => {
                m.remove(NAMES[*n as usize]);
            }
            Op::Builtins => {
                for s in reval::signatures() {
                    m.insert(s.name.to_string(), Entry::Builtin);
                }
            }
        }
    }
    m
}

fn marker(k: Kind, name: &str) -> String {
    format!("{:?}:{}", k, name)
}

pub fn real_registry(h: &[Op]) -> Runtime {
    let mut rt = Runtime::new();
    for op in h {
        match op {
            Op::Register(n, k) => {
                let name = NAMES[*n as usize];
                let m = marker(*k, name);
                match k {
                    Kind::A | Kind::B => rt.register_function(
                        name,
                        Box::new(move |_: &[Rcvar], _: &mut Context<'_>| Ok(Rcvar::new(Variable::String(m.clone())))),
                    ),
                    Kind::Sig => rt.register_function(
                        name,
                        Box::new(CustomFunction::new(
                            Signature::new(vec![ArgumentType::Number], None),
                            Box::new(move |_: &[Rcvar], _: &mut Context<'_>| Ok(Rcvar::new(Variable::String(m.clone())))),
                        )),
                    ),
                }
            }
            Op::Deregister(n) => {
                rt.deregister_function(NAMES[*n as usize]);
            }
            Op::Builtins => rt.register_builtin_functions(),
        }
    }
    rt
}

pub const PROBES: [(&str, &str); 10] = [
    ("abs", "abs(`-1`)"),
    ("abs", "abs('ab')"),
    ("length", "length('ab')"),
    ("normalize_whitespace_left", "normalize_whitespace_left(`-1`)"),
    ("foo", "foo(`-1`)"),
    ("foo", "foo('ab')"),
    ("type", "type(`1`)"),
    ("abs", "[abs(`-2`), length(`[1]`)]"),
    ("normalize_whitespace_right", "normalize_whitespace_right('ab')"),
    ("normalize_whitespace_lef", "normalize_whitespace_lef(`1`)"),
];

fn expected_probe(reg: &BTreeMap<String, Entry>, probe: &str) -> Result<Value, ErrClass> {
    // the reference interpreter with a function table that mirrors R-reg
    struct F<'a>(&'a BTreeMap<String, Entry>);
    impl<'a> Funcs for F<'a> {
        fn call(&self, ev: &Eval, name: &str, args: &[V], at: usize) -> Option<R<V>> {
            match self.0.get(name)? {
                Entry::Builtin => reval::Builtins.call(ev, name, args, at),
                Entry::Custom(k @ (Kind::A | Kind::B)) => Some(Ok(V::J(Value::String(marker(*k, name))))),
                Entry::Custom(Kind::Sig) => {
                    let ok = args.len() == 1 && Ty::Number.admits(&args[0]);
                    if ok {
                        Some(Ok(V::J(Value::String(marker(Kind::Sig, name)))))
                    } else {
                        Some(Err(RErr {
                            class: if args.len() == 1 { ErrClass::InvalidType } else { ErrClass::InvalidArity },
                            tok_lo: at,
                            tok_hi: at + 1,
                            detail: "custom signature".into(),
                        }))
                    }
                }
            }
        }
    }
    let p = rparse::parse(probe).expect("probe parses");
    let f = F(reg);
    let ev = Eval { funcs: &f, step0_nonarray_null: false };
    match ev.search(&p.tree, &Value::Null) {
        Ok(V::J(v)) => Ok(v),
        Ok(V::X(_)) => Ok(Value::String(EXPREF_MARK.into())),
        Err(e) => Err(e.class),
    }
}

#[derive(Clone)]
pub struct Reg {
    pub depth: usize,
    pub ops: Vec<Op>,
}

impl Reg {
    pub fn judge(&self, h: &[u8]) -> Option<(String, String, String)> {
        let hops: Vec<Op> = h.iter().map(|&i| self.ops[i as usize]).collect();
        let reg = ref_registry(&hops);
        let r = guarded(|| {
            let rt = real_registry(&hops);
            for name in NAMES.iter().chain(["type", "sort_by", "nosuch", "length", "normalize_whitespace_", "normalize_whitespace_leftx", "ab", "abs "].iter()) {
                let have = rt.get_function(name).is_some();
                let want = reg.contains_key(*name);
                if have != want {
                    return Some((format!("C15/get_function/{}", name), format!("registered = {}", want), format!("registered = {}", have)));
                }
            }
            for (name, probe) in PROBES.iter() {
                let want = expected_probe(&reg, probe);
                let got = match rt.compile(probe) {
                    Err(e) => Err(format!("compile {:?}", e.reason)),
                    Ok(e) => match e.search(()) {
                        Ok(v) => Ok(var_to_value(&v)),
                        Err(e) => Err(match classify(&e) {
                            IClass::Rt(c) => format!("{:?}", c),
                            IClass::Parse => "Parse".into(),
                        }),
                    },
                };
                let ok = match (&want, &got) {
                    (Ok(w), Ok(g)) => reval::deep_eq(w, g),
                    (Err(c), Err(g)) => &format!("{:?}", c) == g,
                    _ => false,
                };
                if !ok {
                    return Some((format!("C15/call/{}", name), format!("{} => {:?}", probe, want), format!("{:?}", got)));
                }
            }
            None
        });
        match r {
            Ok(x) => x,
            Err(m) => Some(("C15/panic".into(), "no panic".into(), m)),
        }
    }
}

impl Model for Reg {
    type State = Vec<u8>;
    type Action = u8;
    fn init_states(&self) -> Vec<Self::State> {
        vec![vec![]]
    }
    fn actions(&self, s: &Self::State, actions: &mut Vec<Self::Action>) {
        if s.len() < self.depth {
            for i in 0..self.ops.len() {
                actions.push(i as u8);
            }
        }
    }
    fn next_state(&self, s: &Self::State, a: Self::Action) -> Option<Self::State> {
        let mut n = s.clone();
        n.push(a);
        Some(n)
    }
    fn properties(&self) -> Vec<Property<Self>> {
        vec![Property::always("registry answers like the reference map", |m: &Reg, s: &Vec<u8>| m.judge(s).is_none())]
    }
}

// ---------------------------------------------------------------------------
// call protocol

thread_local! {
    static LOG: RefCell<Vec<(String, Vec<Value>)>> = RefCell::new(Vec::new());
    static RLOG: RefCell<Vec<(String, Vec<Value>)>> = RefCell::new(Vec::new());
}

fn arg_image(v: &Rcvar) -> Value {
    if v.is_expref() {
        Value::String(EXPREF_MARK.into())
    } else {
        var_to_value(v)
    }
}

fn protocol_runtime() -> Runtime {
    let mut rt = Runtime::new();
    rt.register_builtin_functions();
    for name in ["rec", "rec2"] {
        let n = name.to_string();
        rt.register_function(
            name,
            Box::new(move |args: &[Rcvar], _: &mut Context<'_>| {
                LOG.with(|l| l.borrow_mut().push((n.clone(), args.iter().map(arg_image).collect())));
                // result: the first non-expref argument, else null
                Ok(args.iter().find(|a| !a.is_expref()).cloned().unwrap_or_else(|| Rcvar::new(Variable::Null)))
            }),
        );
    }
    rt
}

struct RefRec;
impl Funcs for RefRec {
    fn call(&self, ev: &Eval, name: &str, args: &[V], at: usize) -> Option<R<V>> {
        if name == "rec" || name == "rec2" {
            let img: Vec<Value> = args.iter().map(|a| match a {
                V::J(v) => v.clone(),
                V::X(_) => Value::String(EXPREF_MARK.into()),
            }).collect();
            RLOG.with(|l| l.borrow_mut().push((name.to_string(), img)));
            let r = args.iter().find_map(|a| match a {
                V::J(v) => Some(v.clone()),
                _ => None,
            });
            return Some(Ok(V::J(r.unwrap_or(Value::Null))));
        }
        reval::Builtins.call(ev, name, args, at)
    }
}

pub fn check_protocol(rt: &Runtime, src: &str, d: &Value, st: &mut Stats) {
    st.states += 1;
    st.transitions += 1;
    st.evaluations += 1;
    st.validated += 1;
    let p = match rparse::parse(src) {
        Ok(p) => p,
        Err(_) => {
            st.count("MODEL_ERROR_protocol_expression_does_not_parse", 1);
            return;
        }
    };
    RLOG.with(|l| l.borrow_mut().clear());
    LOG.with(|l| l.borrow_mut().clear());
    let f = RefRec;
    let ev = Eval { funcs: &f, step0_nonarray_null: false };
    let want = ev.search(&p.tree, d);
    if crate::oracle::unspecified(&want) {
        st.outcome("unspecified by the oracle (tie)");
        return;
    }
    let got = guarded(|| rt.compile(src).map_err(|e| format!("{:?}", e.reason)).and_then(|e| e.search(value_to_var(d)).map(|v| var_to_value(&v)).map_err(|e| format!("{:?}", e.reason))));
    let wl = RLOG.with(|l| l.borrow().clone());
    let gl = LOG.with(|l| l.borrow().clone());
    let case = json!({"kind": "protocol", "expression": src, "document": d});
    // when the whole search fails, the implementation may stop evaluating
    // earlier than the reference: its log must be a prefix
    let logs_ok = if want.is_err() { gl.len() <= wl.len() && wl[..gl.len()] == gl[..] } else { wl == gl };
    if !logs_ok {
        st.violate(Violation {
            key: "C15/protocol/arguments-or-order".into(),
            check: "call-protocol".into(),
            case,
            expected: format!("{:?}", wl),
            actual: format!("{:?}", gl),
        });
        return;
    }
    let ok = match (&want, &got) {
        (Ok(V::J(w)), Ok(Ok(g))) => reval::deep_eq(w, g),
        (Err(_), Ok(Err(_))) => true,
        _ => false,
    };
    if !ok {
        st.violate(Violation {
            key: "C15/protocol/result".into(),
            check: "call-protocol".into(),
            case,
            expected: crate::oracle::ref_brief(&want),
            actual: format!("{:?}", got),
        });
        return;
    }
    if !gl.is_empty() {
        st.nontrivial += 1;
        st.outcome("custom function invoked with the expected arguments");
    } else {
        st.outcome("custom function not invoked (as expected)");
    }
    if st.states % 211 == 0 {
        st.sample(|| json!({"expression": src, "invocations": format!("{:?}", gl)}));
    }
}

fn sig_types() -> Vec<(&'static str, ArgumentType, Ty)> {
    vec![
        ("any", ArgumentType::Any, Ty::Any),
        ("null", ArgumentType::Null, Ty::Null),
        ("string", ArgumentType::String, Ty::String),
        ("number", ArgumentType::Number, Ty::Number),
        ("bool", ArgumentType::Bool, Ty::Bool),
        ("object", ArgumentType::Object, Ty::Object),
        ("array", ArgumentType::Array, Ty::Array),
        ("expref", ArgumentType::Expref, Ty::Expref),
        ("array[number]", ArgumentType::TypedArray(Box::new(ArgumentType::Number)), Ty::ArrayOf(Box::new(Ty::Number))),
        ("array[string]", ArgumentType::TypedArray(Box::new(ArgumentType::String)), Ty::ArrayOf(Box::new(Ty::String))),
        ("string|number", ArgumentType::Union(vec![ArgumentType::String, ArgumentType::Number]), Ty::Union(vec![Ty::String, Ty::Number])),
        ("array|expref", ArgumentType::Union(vec![ArgumentType::Array, ArgumentType::Expref]), Ty::Union(vec![Ty::Array, Ty::Expref])),
        ("array[array[number]]", ArgumentType::TypedArray(Box::new(ArgumentType::TypedArray(Box::new(ArgumentType::Number)))), Ty::ArrayOf(Box::new(Ty::ArrayOf(Box::new(Ty::Number))))),
        ("array[string|number]", ArgumentType::TypedArray(Box::new(ArgumentType::Union(vec![ArgumentType::String, ArgumentType::Number]))), Ty::ArrayOf(Box::new(Ty::Union(vec![Ty::String, Ty::Number])))),
        ("array[any]", ArgumentType::TypedArray(Box::new(ArgumentType::Any)), Ty::ArrayOf(Box::new(Ty::Any))),
        ("array[object]", ArgumentType::TypedArray(Box::new(ArgumentType::Object)), Ty::ArrayOf(Box::new(Ty::Object))),
    ]
}

/// a CustomFunction is only invoked when the arguments satisfy its signature
fn check_signatures(st: &mut Stats) {
    let mut classes = crate::checks::c06::classes(false);
    classes.extend(vec![
        ("array-of-number-arrays", "`[[1],[2]]`"), ("array-of-mixed-arrays", "`[[1],[\"a\"]]`"), ("number-string-number", "`[1,\"a\",2]`"),
        ("array-of-objects", "`[{\"a\":1},{}]`"), ("object-then-number", "`[{},1]`"),
        ("array-containing-expref", "[a, &a]"), ("nested-array-containing-expref", "[[&a]]"),
        // arguments taken from the document: a repeated field (or the current node twice) hands the *same node* to
        // two parameters
        ("field-null", "n_"), ("field-string", "s_"), ("field-number", "num_"), ("field-number-array", "an_"), ("field-object", "o_"), ("current-node", "@"),
    ]);
    let sig_doc = json!({"a": 1, "n_": null, "s_": "a", "num_": 1, "an_": [1, 2], "o_": {"a": 1}});
    for (tname, at, ty) in sig_types() {
        // mode 0: one fixed parameter; 1: one parameter and a variadic tail of the same type; 2: a string parameter
        // followed by a variadic tail of the type (the tail is validated for every further argument)
        for mode in [0usize, 1, 2] {
            let variadic = mode > 0;
            let mut rt = Runtime::new();
            let sig = match mode {
                0 => Signature::new(vec![at.clone()], None),
                1 => Signature::new(vec![at.clone()], Some(at.clone())),
                _ => Signature::new(vec![ArgumentType::String], Some(at.clone())),
            };
            rt.register_function(
                "sf",
                Box::new(CustomFunction::new(
                    sig,
                    Box::new(|args: &[Rcvar], _: &mut Context<'_>| {
                        LOG.with(|l| l.borrow_mut().push(("sf".into(), args.iter().map(arg_image).collect())));
                        Ok(Rcvar::new(Variable::Bool(true)))
                    }),
                )),
            );
            let mut argsets: Vec<Vec<usize>> = vec![vec![]];
            for i in 0..classes.len() {
                argsets.push(vec![i]);
            }
            for i in 0..classes.len() {
                for j in 0..classes.len() {
                    argsets.push(vec![i, j]);
                }
            }
            if variadic {
                // three arguments: every combination; four: over a representative subset
                for i in 0..classes.len() {
                    for j in 0..classes.len() {
                        for k in 0..classes.len() {
                            argsets.push(vec![i, j, k]);
                        }
                    }
                }
                let sub = [2usize, 3, 5, 8, 9];
                for i in sub {
                    for j in sub {
                        for k in sub {
                            for l in sub {
                                argsets.push(vec![i, j, k, l]);
                            }
                        }
                    }
                }
            }
            for aset in argsets {
                st.states += 1;
                st.transitions += 1;
                st.evaluations += 1;
                st.validated += 1;
                let mut texts: Vec<&str> = aset.iter().map(|&i| classes[i].1).collect();
                if mode == 2 {
                    // the leading string is the document's string field: when the tail repeats that field the two
                    // parameters (string, T) receive the same node
                    texts.insert(0, "s_");
                }
                let src = format!("sf({})", texts.join(", "));
                LOG.with(|l| l.borrow_mut().clear());
                let got = guarded(|| rt.compile(&src).unwrap().search(value_to_var(&sig_doc)).map(|v| var_to_value(&v)));
                let invoked = LOG.with(|l| l.borrow().len());
                // reference: arity, then every argument admitted
                // arguments written as a multi-select list with an expref inside only parse under the
                // known deviation "expref outside a function argument": use the relaxed reference parser
                let relaxed = rparse::Opts { relax: crate::gram::Relax { expref_anywhere: true, ..Default::default() }, ..Default::default() };
                let p = rparse::parse_with(&src, relaxed).unwrap();
                let arg_nodes: Vec<rparse::N> = match &p.tree.k {
                    rparse::K::Function(_, a, _) => a.clone(),
                    _ => unreachable!(),
                };
                fn holds_expref(n: &rparse::N) -> bool {
                    match &n.k {
                        rparse::K::Expref(_) => true,
                        rparse::K::MultiList(v) => v.iter().any(holds_expref),
                        _ => false,
                    }
                }
                /// does the parameter type admit the value this argument node denotes?  (arrays that
                /// hold expression references cannot be represented as JSON, so decide on the node)
                fn admits_node(t: &Ty, n: &rparse::N, doc: &Value) -> bool {
                    match &n.k {
                        rparse::K::Expref(_) => match t {
                            Ty::Expref => true,
                            Ty::Union(ts) => ts.iter().any(|u| admits_node(u, n, doc)),
                            _ => false,
                        },
                        rparse::K::MultiList(items) if holds_expref(n) => match t {
                            Ty::Any | Ty::Array => true,
                            Ty::ArrayOf(e) => items.iter().all(|x| admits_node(e, x, doc)),
                            Ty::Union(ts) => ts.iter().any(|u| admits_node(u, n, doc)),
                            _ => false,
                        },
                        _ => t.admits(&Eval::builtin().ev(n, doc).unwrap()),
                    }
                }
                let admits: Vec<bool> = arg_nodes.iter().enumerate().map(|(i, x)| if mode == 2 && i == 0 { admits_node(&Ty::String, x, &sig_doc) } else { admits_node(&ty, x, &sig_doc) }).collect();
                let arity_ok = if variadic { !admits.is_empty() } else { admits.len() == 1 };
                let want: Result<(), ErrClass> = if !arity_ok {
                    Err(ErrClass::InvalidArity)
                } else if admits.iter().all(|a| *a) {
                    Ok(())
                } else {
                    Err(ErrClass::InvalidType)
                };
                let ok = match (&want, &got) {
                    (Ok(()), Ok(Ok(v))) => *v == json!(true) && invoked == 1,
                    (Err(c), Ok(Err(e))) => classify(e) == IClass::Rt(*c) && invoked == 0,
                    _ => false,
                };
                if ok {
                    if want.is_ok() {
                        st.nontrivial += 1;
                    }
                    st.outcome(if want.is_ok() { "signature satisfied, closure invoked" } else { "signature violated, closure not invoked" });
                } else {
                    st.violate(Violation {
                        key: format!("C15/custom-signature/{}", tname),
                        check: "custom-signature".into(),
                        case: json!({"kind": "custom-signature", "type": tname, "variadic": variadic, "mode": mode, "expression": src}),
                        expected: format!("{:?}", want),
                        actual: format!("{:?} invoked {} times", got.map(|r| r.map_err(|e| e.reason)), invoked),
                    });
                }
            }
        }
    }
}

pub fn run(tier: Tier) -> i32 {
    let mut rep = Report::new("C15", tier);
    let depth = tier.pick(4, 6);
    let model = Reg { depth, ops: all_ops() };
    let nops = model.ops.len();
    let mut st = Stats::default();
    let mut checker = model.clone().checker().threads(16).spawn_bfs().join();
    if let Some(path) = checker.discovery("registry answers like the reference map") {
        let acts: Vec<u8> = path.into_actions();
        if model.judge(&acts).is_none() {
            println!("note: a discovery of the parallel search did not reproduce sequentially (cross-thread interference); re-deciding with one worker");
            st.count("parallel_discovery_not_reproducible_rerun_single_threaded", 1);
            checker = model.clone().checker().threads(1).spawn_bfs().join();
        }
    }
    st.states = checker.unique_state_count() as u64;
    st.transitions = checker.state_count() as u64;
    st.validated = st.states * (PROBES.len() as u64 + 6);
    st.evaluations = st.validated;
    st.nontrivial = st.states.saturating_sub(1);
    st.count("max_depth", checker.max_depth() as u64);
    if let Some(path) = checker.discovery("registry answers like the reference map") {
        let acts: Vec<u8> = path.into_actions();
        let (key, want, got) = model.judge(&acts).unwrap_or(("C15/unreproducible".into(), String::new(), String::new()));
        st.violate(Violation {
            key,
            check: "registry-histories".into(),
            case: json!({"kind": "history", "history": acts.iter().map(|&a| format!("{:?}", model.ops[a as usize])).collect::<Vec<_>>(), "indices": acts}),
            expected: want,
            actual: got,
        });
    } else {
        let full: u64 = (0..=depth).map(|d| (nops as u64).pow(d as u32)).sum();
        rep.guard("the whole history tree was visited", st.states == full);
    }
    // distinct reference states reached
    {
        let mut seen = std::collections::BTreeSet::new();
        let mut stack: Vec<Vec<Op>> = vec![vec![]];
        while let Some(h) = stack.pop() {
            let reg = ref_registry(&h);
            let key: Vec<String> = NAMES.iter().map(|n| format!("{:?}", reg.get(*n))).collect();
            seen.insert(key.join(","));
            if h.len() < 3 {
                for op in &model.ops {
                    let mut n = h.clone();
                    n.push(*op);
                    stack.push(n);
                }
            }
        }
        st.count("distinct_reference_registry_states_within_depth_3", seen.len() as u64);
        rep.guard("many distinct registry states are reached", seen.len() >= 40);
    }
    st.sample(|| json!({"history": ["Builtins", "Register(0, A)", "Deregister(0)"], "probes": PROBES.iter().map(|p| p.1).collect::<Vec<_>>()}));
    // call protocol
    let rt = protocol_runtime();
    let d = json!({"a": 1, "b": [1, 2], "xs": [{"a": 1, "b": "x"}, {"a": 2}, {"b": null}]});
    let atoms = ["a", "b", "&a", "`1`", "rec2(a)", "rec2(&b, b)", "&b | a"];
    let mut vecs: Vec<Vec<&str>> = vec![vec![]];
    let maxargs = tier.pick(3, 4);
    let mut layer: Vec<Vec<&str>> = vec![vec![]];
    for _ in 0..maxargs {
        let mut next = Vec::new();
        for v in &layer {
            for a in atoms {
                let mut w = v.clone();
                w.push(a);
                next.push(w);
            }
        }
        vecs.extend(next.iter().cloned());
        layer = next;
    }
    for v in &vecs {
        let call = format!("rec({})", v.join(", "));
        for form in [call.clone(), format!("xs[*].{}", call), format!("to_array({})", call), format!("[{}, rec2(b)]", call), format!("xs[?{}]", call), format!("b | {}", call), format!("sort_by(xs, &{})", call), format!("rec2(`0`) && {}", call), format!("rec2(`[]`) && {}", call),
            // behind a null left-hand side, alone and with a further step applied to the call's result
            format!("nokey | {}", call), format!("nokey.{}", call), format!("nokey | {}.a", call), format!("nokey | {}[0]", call), format!("nokey | {}[]", call), format!("nokey.{}[0]", call), format!("nokey | {}.*", call), format!("nokey | {} | [@]", call),
            // as an operand of a comparison whose other operand is not a number
            format!("'s' < {}", call), format!("b >= {}", call), format!("{} <= 's'", call), format!("xs[?nokey > {}]", call), format!("`true` == {}", call)] {
            check_protocol(&rt, &form, &d, &mut st);
        }
    }
    // by-functions over long arrays, with custom functions before, inside and after
    for n in [100usize, 127, 128, 129, 200, 1000] {
        let big = json!({"xs": (0..n).map(|i| json!({"n": (i * 37) % 1009, "i": i})).collect::<Vec<_>>(), "b": [1]});
        for form in ["sort_by(xs, &n)[*].rec(i) | length(@)", "max_by(xs, &n) | rec(@)", "sort_by(xs, &rec2(n))[0].i", "min_by(xs, &n).rec(i)", "rec(max_by(xs, &n).i, length(sort_by(xs, &i)))", "sort_by(xs, &n)[-1] | rec2(@, &i)", "map(&rec(n), xs) | length(@)"] {
            check_protocol(&rt, form, &big, &mut st);
        }
    }
    check_signatures(&mut st);
    // names are exact strings: a padded name is another name (registering or deregistering it leaves the plain one alone)
    {
        let mk = |tag: &'static str| -> Box<dyn jmespath::functions::Function> {
            Box::new(move |_: &[Rcvar], _: &mut Context<'_>| Ok(Rcvar::new(Variable::String(tag.to_string()))))
        };
        for pad in ["f ", " f", "f\t", "\tf", "f\n", "\u{a0}f", "f\u{a0}", " f "] {
            let mut rt = Runtime::new();
            rt.register_builtin_functions();
            rt.register_function("f", mk("plain"));
            rt.register_function(pad, mk("padded"));
            let mut rt2 = Runtime::new();
            rt2.register_builtin_functions();
            rt2.register_function(pad, mk("padded"));
            rt2.deregister_function(&pad.replace('f', "length"));
            let mut rt3 = Runtime::new();
            rt3.register_builtin_functions();
            rt3.register_function("f", mk("plain"));
            rt3.deregister_function(pad);
            let probes: Vec<(&str, &Runtime, &str, Result<&str, ErrClass>)> = vec![
                ("register(f), register(padded)", &rt, "f()", Ok("\"plain\"")),
                ("register(padded) only", &rt2, "f()", Err(ErrClass::UnknownFunction)),
                ("deregister(padded 'length')", &rt2, "length('ab')", Ok("2")),
                ("register(f), deregister(padded)", &rt3, "f()", Ok("\"plain\"")),
            ];
            for (what, r, call, want) in probes {
                st.states += 1;
                st.evaluations += 1;
                st.validated += 1;
                let got = guarded(|| r.compile(call).map_err(|e| classify(&e)).and_then(|e| e.search(()).map(|v| v.to_string()).map_err(|e| classify(&e))));
                let ok = match (&want, &got) {
                    (Ok(w), Ok(Ok(g))) => w == g,
                    (Err(c), Ok(Err(g))) => *g == IClass::Rt(*c),
                    _ => false,
                };
                if ok {
                    st.outcome("padded names are other names");
                } else {
                    st.violate(Violation { key: "C15/padded-name".into(), check: "padded-names".into(), case: json!({"kind": "padded-name", "padded": pad, "history": what, "call": call}), expected: format!("{:?}", want), actual: format!("{:?}", got) });
                }
            }
            for (r, present) in [(&rt, true), (&rt2, true), (&rt3, false)] {
                st.evaluations += 1;
                st.validated += 1;
                if r.get_function(pad).is_some() != present {
                    st.violate(Violation { key: "C15/padded-name".into(), check: "padded-names".into(), case: json!({"kind": "padded-name", "padded": pad, "history": "get_function(padded)"}), expected: format!("registered = {}", present), actual: format!("registered = {}", !present) });
                }
            }
        }
    }
    rep.rule = "explicit-state BFS over all histories of register(name, A|B|Sig) / deregister(name) / register_builtins over the names {abs, length, foo} up to the depth bound; after every history get_function presence for 6 names and 8 probe calls compiled from that runtime are compared with the reference map (most recent registration still registered wins; builtins per R-fn; unknown-function otherwise). Call protocol: recording custom functions on every argument vector up to the bound over {a, b, &a, `1`, rec2(a), rec2(&b, b)} in 9 contexts: recorded argument images, invocation order and results equal R-eval's; CustomFunction x 12 signature types x {fixed, variadic} x all argument class vectors of length <= 2: closure invoked iff the signature is satisfied. non-trivial = non-empty history / function actually invoked Custom signatures in three shapes (one parameter; parameter + variadic tail; string parameter + variadic tail of the type) with every argument vector up to length 3 (variadic) and a 5-class subset at length 4; protocol contexts include a null left-hand side with and without a further step applied to the call. Argument classes include document fields and the current node, so that the same node reaches two parameters; calls also stand as operands of comparisons with a non-number on the other side.".into();
    rep.bounds = json!({"history_depth": depth, "operations": nops, "protocol_max_args": maxargs});
    rep.stats = st;
    rep.finish()
}

pub fn replay(case: &Value) -> Option<(String, bool)> {
    let mut st = Stats::default();
    match case["kind"].as_str()? {
        "history" => {
            let idx: Vec<u8> = case["indices"].as_array()?.iter().map(|v| v.as_u64().unwrap() as u8).collect();
            let m = Reg { depth: idx.len(), ops: all_ops() };
            return Some(match m.judge(&idx) {
                Some((k, w, g)) => (format!("{}: expected {} actual {}", k, w, g), true),
                None => ("registry agrees".into(), false),
            });
        }
        "protocol" => check_protocol(&protocol_runtime(), case["expression"].as_str()?, &case["document"], &mut st),
        "custom-signature" => check_signatures(&mut st),
        _ => return None,
    }
    Some(match st.violations.first() {
        Some(v) => (format!("{}: expected {} actual {}", v.key, v.expected, v.actual), true),
        None => ("agree".into(), false),
    })
}
