//! C01 -- search conforms to the specification (core expression forms).
use crate::engine::{par_sweep, Report, Stats, Tier, Violation};
use crate::enumr::{pool_full, pool_quick, sentences, shards, t_core};
use crate::gram::{Grammar, Relax};
use crate::oracle::{compare, Pool};
use crate::rparse;
use serde_json::{json, Value};

lazy_static::lazy_static! {
    static ref G: Grammar = Grammar::new(Relax::default());
}

pub fn e0() -> Vec<&'static str> {
    vec![
        "a", "b", "@", "`1`", "`null`", "'a'", "'1'", "[0]", "[-1]", "[1:]", "[::-1]", "[::0]", "[]", "[*]", "*", "type(@)",
    ]
}

pub const UNARY: &[&str] = &[
    "X.a", "X.b", "X[0]", "X[-1]", "X[1:]", "X[::-1]", "X[*]", "X[]", "X.*", "!X", "(X)",
];
pub const BINARY: &[&str] = &[
    "X|Y", "X||Y", "X&&Y", "X==Y", "X!=Y", "X<Y", "X<=Y", "[X,Y]", "{a:X,b:Y}", "X[?Y]", "sort_by(X, &Y)", "map(&X, Y)",
];

pub fn apply1(t: &str, x: &str) -> String {
    t.replace('X', x)
}
pub fn apply2(t: &str, x: &str, y: &str) -> String {
    let mut out = String::new();
    for c in t.chars() {
        match c {
            'X' => out.push_str(x),
            'Y' => out.push_str(y),
            c => out.push(c),
        }
    }
    out
}

/// postfix chains: a base followed by up to `n` postfix operators -- reaches
/// "filter . field filter" and similar shapes beyond the sentence length bound
pub const POSTFIX: &[&str] = &[".a", ".b", "[0]", "[1:]", "[*]", "[]", ".*", "[?a]", "[?b > `0`]", ".[a, b]", ".{x: a, y: b}", " | a", " || b", " == a", ".type(@)", ".not_null(@, 'n')"];
pub const BASES: &[&str] = &["a", "@", "[0]", "*", "!a", "(a)", "[a, b]"];

pub fn chains(n: usize) -> Vec<String> {
    let mut out: Vec<String> = Vec::new();
    let mut layer: Vec<String> = BASES.iter().map(|s| s.to_string()).collect();
    for _ in 0..n {
        let mut next = Vec::new();
        for c in &layer {
            for p in POSTFIX {
                next.push(format!("{}{}", c, p));
            }
        }
        out.extend(next.iter().cloned());
        layer = next;
    }
    out
}

pub fn e1() -> Vec<String> {
    let l = e0();
    let mut out: Vec<String> = l.iter().map(|s| s.to_string()).collect();
    for t in UNARY {
        for x in &l {
            out.push(apply1(t, x));
        }
    }
    for t in BINARY {
        for x in &l {
            for y in &l {
                out.push(apply2(t, x, y));
            }
        }
    }
    out
}

/// Predicates two and three productions deep: every comparison of two small leaves, bare and under the
/// wrappers a predicate is written with (parentheses, negation of the parenthesised form, double negation,
/// conjunction / disjunction with a leaf).  A rewrite keyed on the exact shape of a predicate (`!(a < b)`,
/// `x == literal`, ...) is only reachable at this depth.
pub fn predicates() -> Vec<String> {
    let leaves = ["a", "b", "@", "`1`", "'a'", "`null`", "a.b", "[0]"];
    let mut base: Vec<String> = Vec::new();
    for op in ["==", "!=", "<", "<=", ">", ">="] {
        for x in leaves {
            for y in leaves {
                base.push(format!("{} {} {}", x, op, y));
            }
        }
    }
    let mut out = Vec::new();
    for p in &base {
        for w in ["P", "(P)", "!(P)", "!P", "!!(P)", "!(!(P))", "P && b", "a || P", "!(P) && a", "!(P) || `null`", "(P) == `true`", "!(P) == `true`"] {
            out.push(w.replace('P', p));
        }
    }
    out
}

/// the contexts a predicate is evaluated in
pub const PRED_CONTEXTS: &[&str] = &["P", "[?P]", "a[?P]", "[?P].a", "[?P] | [0]", "[?P][0]", "{x: P}.x", "[P, P]", "[*].[?P]", "*[?P]", "[?P] | length(@)"];

thread_local! {
    static POOL: std::cell::RefCell<Option<Pool>> = std::cell::RefCell::new(None);
    static POOL_FULL: std::cell::RefCell<Option<Pool>> = std::cell::RefCell::new(None);
}

fn key_for(expr: &str) -> String {
    let _ = expr;
    "C01/search-mismatch".into()
}

/// one expression against every document of the pool
pub fn check_expr(src: &str, pool: &Pool, sub: &str, st: &mut Stats) {
    st.states += 1;
    let p = match rparse::parse(src) {
        Ok(p) => p,
        Err(_) => {
            st.count("skipped_not_a_sentence", 1);
            return;
        }
    };
    let expr = match crate::implx::guarded(|| jmespath::compile(src)) {
        Ok(Ok(e)) => e,
        Ok(Err(e)) => {
            st.violate(Violation {
                key: "C01/sentence-does-not-compile".into(),
                check: sub.into(),
                case: json!({"kind": "search", "expression": src, "document": null}),
                expected: "compiles".into(),
                actual: format!("{:?}", e.reason),
            });
            return;
        }
        Err(m) => {
            st.violate(Violation {
                key: "C01/panic".into(),
                check: sub.into(),
                case: json!({"kind": "search", "expression": src, "document": null}),
                expected: "compiles".into(),
                actual: m,
            });
            return;
        }
    };
    let mut nontrivial = false;
    for (d, rc) in pool.docs.iter().zip(pool.rcs.iter()) {
        st.evaluations += 1;
        st.validated += 1;
        st.transitions += 1;
        match compare(&p, &expr, d, rc) {
            None => {}
            Some((exp, act, out)) => {
                st.outcome(&format!("MISMATCH/{}", out.class()));
                st.violate(Violation {
                    key: key_for(src),
                    check: sub.into(),
                    case: json!({"kind": "search", "expression": src, "document": d}),
                    expected: exp,
                    actual: act,
                });
                continue;
            }
        }
        // outcome class from the reference side (cheap): evaluate once more only for sampling
        if !nontrivial {
            let r = crate::reval::Eval::builtin().search(&p.tree, d);
            match &r {
                Ok(crate::reval::V::J(Value::Null)) => {}
                _ => nontrivial = true,
            }
        }
    }
    if nontrivial {
        st.nontrivial += 1;
        st.outcome("expression with a non-null result on some document");
    } else {
        st.outcome("expression null on every document");
    }
    st.sample(|| json!({"expression": src, "documents": pool.docs.len()}));
}

fn with_pool<T>(full: bool, f: impl FnOnce(&Pool) -> T) -> T {
    let cell = if full { &POOL_FULL } else { &POOL };
    cell.with(|p| {
        let mut b = p.borrow_mut();
        if b.is_none() {
            *b = Some(Pool::new(if full { pool_full() } else { pool_quick() }));
        }
        f(b.as_ref().unwrap())
    })
}

pub fn run(tier: Tier) -> i32 {
    let mut rep = Report::new("C01", tier);
    crate::engine::start_watchdog("C01", std::time::Duration::from_secs(120));
    let alpha = t_core();
    let l = tier.pick(6, 7);
    let full = tier == Tier::Thorough;
    // (a) every sentence over the core alphabet
    let mut st = Stats::default();
    // sentences of length 1 (shard prefixes have length 2)
    for t in 0..alpha.len() {
        let seq = [t as u8];
        let mut cnt = 0;
        sentences(&G, &alpha, &seq, 1, &mut |_| cnt += 1);
        if cnt > 0 {
            with_pool(full, |pool| check_expr(&alpha.render(&seq), pool, "core-sentences", &mut st));
        }
    }
    // thorough: sentences up to l-1 tokens on the full pool (core + D(1,2)), the longest ones on the core pool --
    // the full product at length l would be 10^10 reference evaluations
    let sa = par_sweep(shards(alpha.len(), 2), |p, st| {
        let mut list: Vec<(String, usize)> = Vec::new();
        let (nodes, edges) = sentences(&G, &alpha, p, l, &mut |seq| list.push((alpha.render(seq), seq.len())));
        st.count("prefix_tree_nodes", nodes);
        st.count("prefix_tree_edges", edges);
        for (s, n) in &list {
            with_pool(full && *n < l, |pool| check_expr(s, pool, "core-sentences", st));
        }
    });
    st = st.merge(sa);
    st.count("core_sentences", st.states);
    // (b) composed expressions E1, E2
    let e1v = e1();
    let e0v = e0();
    let mut e2: Vec<(usize, u8, usize, bool)> = Vec::new(); // (e1 index, template, e0 index, e1 on the left)
    let _ = &mut e2;
    let sb1 = par_sweep((0..e1v.len()).collect::<Vec<_>>(), |&i, st| {
        with_pool(full, |pool| {
            let x = &e1v[i];
            check_expr(x, pool, "composed-E1", st);
            for t in UNARY {
                check_expr(&apply1(t, x), pool, "composed-E2", st);
            }
            if tier == Tier::Quick {
                for t in BINARY {
                    for y in &e0v {
                        check_expr(&apply2(t, x, y), pool, "composed-E2", st);
                        check_expr(&apply2(t, y, x), pool, "composed-E2", st);
                    }
                }
            } else {
                for t in BINARY {
                    for y in &e0v {
                        check_expr(&apply2(t, x, y), pool, "composed-E2", st);
                        check_expr(&apply2(t, y, x), pool, "composed-E2", st);
                    }
                }
            }
        });
        if tier == Tier::Thorough {
            // E1 x E1 for the productions that nest evaluation contexts, on the core pool
            with_pool(false, |pool| {
                let x = &e1v[i];
                for t in ["X|Y", "X[?Y]", "[X,Y]", "X&&Y"] {
                    for y in &e1v {
                        check_expr(&apply2(t, x, y), pool, "composed-E2", st);
                    }
                }
            });
        }
    });
    st = st.merge(sb1);
    // (c) postfix chains
    let clen = tier.pick(4, 5);
    let ch = chains(clen);
    // chains() lists the layers in order of length: the last layer (the longest chains) starts here
    let last_layer_from = ch.len() - BASES.len() * POSTFIX.len().pow(clen as u32);
    let indexed: Vec<(usize, Vec<String>)> = ch.chunks(256).enumerate().map(|(i, c)| (i * 256, c.to_vec())).collect();
    let sc = par_sweep(indexed, |(start, chunk): &(usize, Vec<String>), st| {
        for (k, s) in chunk.iter().enumerate() {
            // thorough: the longest chains on the core pool, shorter ones on the full pool
            let longest = start + k >= last_layer_from;
            with_pool(full && !longest, |pool| check_expr(s, pool, "postfix-chains", st));
        }
    });
    st = st.merge(sc);
    // (d) leaves with delimiter characters and escapes in them, in the contexts a leaf can stand in
    {
        let leaves = [
            "'a\\`b'", "'\\`'", "'x\\\\`y'", "'it\\'s'", "'\\\\'", "'\\z'", "'`'", "'\"'", "'a\\\\\\'b'", "`\"a\\`b\"`", "`\"\\\\\"`", "`\"it's\"`", "`\"\\\"q\\\"\"`", "\"a b\"", "\"a\\\"b\"", "\"`\"", "\"'\"",
            "`\"x\\\\\\`y\"`", "'\\\\`'", "'\\'\\`\\''",
        ];
        let mut sd = Stats::default();
        for leaf in leaves {
            for tpl in ["X", "[X]", "{a: X}.a", "a || X", "X == X", "X | @", "nokey | X", "[X, 'a']", "X == 'a'", "X == `\"a\"`", "[X][0]", "not_null(nokey, X)", "@.X"] {
                let e = tpl.replace('X', leaf);
                if rparse::parse(&e).is_ok() {
                    with_pool(false, |pool| check_expr(&e, pool, "leaf-spellings", &mut sd));
                }
            }
        }
        st = st.merge(sd);
    }
    // (e) medium-size documents (containers of about 16, 32, 64 ... elements / members): every sentence up to
    // 4 tokens, every E1 expression and every postfix chain of length <= 2 (the thorough tier extends the sizes)
    {
        let sizes: Vec<usize> = tier.pick(vec![16, 17, 33], vec![15, 16, 17, 31, 32, 33, 63, 64, 65, 129, 257]);
        let mdocs = crate::enumr::medium_docs(&sizes);
        let ml = 4;
        let mut exprs: Vec<String> = Vec::new();
        for t in 0..alpha.len() {
            sentences(&G, &alpha, &[t as u8], ml, &mut |seq| exprs.push(alpha.render(seq)));
        }
        exprs.extend(e1v.iter().cloned());
        exprs.extend(chains(2));
        exprs.extend(["[?a]", "[?a == `1`].b", "[?@]", "[?!@]", "*.a", "a[?a > `0`].b[]", "[].b[]", "[*].b[1]", "a[::2]", "a[1::3].a", "b.*", "b.* | [0]", "[*][0]", "[][]", "[*].a | [-1]", "a[-1]", "*[0]", "[?b[0] > `10`].a"].iter().map(|s| s.to_string()));
        exprs.sort();
        exprs.dedup();
        let n_docs = mdocs.len();
        let se = par_sweep(exprs.chunks(64).map(|c| c.to_vec()).collect::<Vec<_>>(), move |chunk: &Vec<String>, st| {
            thread_local! { static MP: std::cell::RefCell<Option<Pool>> = std::cell::RefCell::new(None); }
            MP.with(|mp| {
                let mut b = mp.borrow_mut();
                if b.as_ref().map_or(true, |p| p.docs.len() != n_docs) {
                    *b = Some(Pool::new(mdocs.clone()));
                }
                for s in chunk {
                    check_expr(s, b.as_ref().unwrap(), "medium-size-documents", st);
                }
            });
        });
        st.count("medium_size_expressions", se.states);
        st = st.merge(se);
    }
    // (f) predicates two and three productions deep, in every context a predicate can stand in
    {
        let preds = predicates();
        let sf = par_sweep(preds.chunks(32).map(|c| c.to_vec()).collect::<Vec<_>>(), |chunk: &Vec<String>, st| {
            for p in chunk {
                for c in PRED_CONTEXTS {
                    with_pool(false, |pool| check_expr(&c.replace('P', p), pool, "predicates", st));
                }
            }
        });
        st.count("predicate_expressions", sf.states);
        st = st.merge(sf);
    }
    rep.guard("some expressions yield non-null results", st.nontrivial > 100);
    rep.guard("more than 1000 expressions explored", st.states > 1000);
    rep.rule = "(a) every sentence of the grammar over the core token alphabet up to the length bound (DFS over viable prefixes) and (b) every composed expression E1 = production(E0,E0), E2 = production(E1, E0|E1); each expression is searched on every document of the pool by the implementation and by the reference interpreter R-eval(R-parse(e), d). states = expressions, transitions = (expression, document) pairs; non-trivial = the expression has a non-null result on at least one document (d) 20 leaves with delimiter characters and escapes inside raw strings, literals and quoted identifiers x 13 contexts. (f) every comparison of two of 8 leaves under 12 predicate wrappers in 11 contexts. (e) short sentences, E1 and short chains on documents with containers of medium size (6 shapes per size).".into();
    rep.bounds = json!({"medium_document_sizes": tier.pick(vec![16, 17, 33], vec![15, 16, 17, 31, 32, 33, 63, 64, 65, 129, 257]), "medium_document_expressions": "sentences <= 4 tokens + E1 + postfix chains <= 2", "sentence_len": l, "alphabet": alpha.texts, "documents": if full { pool_full().len() } else { pool_quick().len() }, "postfix_chain_len": clen, "postfix": POSTFIX, "bases": BASES, "E0": e0v, "unary": UNARY, "binary": BINARY, "E2": if full {"E1 x E0 and E0 x E1 for all binary productions on the full pool; E1 x E1 for | [?] [,] && on the core pool"} else {"E1 x E0 and E0 x E1 for binary productions"}, "thorough_pools": "sentences of the longest length and the longest postfix chains use the core pool, everything shorter the full pool"});
    rep.assumptions = vec![
        "reference semantics = DESIGN Appendix A, bound to the compliance fixtures at check start".into(),
        "a step-0 slice applied to a non-array may be an error or null".into(),
    ];
    rep.stats = st;
    rep.finish()
}

pub fn replay(case: &Value) -> Option<(String, bool)> {
    let src = case["expression"].as_str()?;
    let doc = &case["document"];
    let p = match rparse::parse(src) {
        Ok(p) => p,
        Err(e) => return Some((format!("reference does not parse: {:?}", e), false)),
    };
    let expr = match jmespath::compile(src) {
        Ok(e) => e,
        Err(e) => return Some((format!("does not compile: {:?}", e.reason), true)),
    };
    let rc = crate::implx::value_to_var(doc);
    match compare(&p, &expr, doc, &rc) {
        None => Some(("agree".into(), false)),
        Some((e, a, _)) => Some((format!("expected {} actual {}", e, a), true)),
    }
}
