//! C06 -- signatures: arity and argument types.
use crate::engine::{par_sweep, Report, Stats, Tier, Violation};
use crate::implx::{guarded, value_to_var};
use crate::oracle::{check_top_call, Verdict};
use crate::reval::signatures;
use crate::rparse;
use serde_json::{json, Value};

/// the ten argument type classes, as literals / an expression reference
pub fn classes(second: bool) -> Vec<(&'static str, &'static str)> {
    if !second {
        vec![
            ("null", "`null`"), ("boolean", "`true`"), ("number", "`1`"), ("string", "'a'"), ("empty-array", "`[]`"),
            ("array-of-numbers", "`[1,2]`"), ("array-of-strings", "`[\"a\",\"b\"]`"), ("mixed-array", "`[1,\"a\"]`"),
            ("object", "`{\"a\":1}`"), ("expref", "&a"), ("number-array-with-null", "`[1,null]`"), ("string-array-with-null", "`[\"a\",null]`"),
        ]
    } else {
        vec![
            ("null", "`null`"), ("boolean", "`false`"), ("number", "`-1.5`"), ("string", "''"), ("empty-array", "`[]`"),
            ("array-of-numbers", "`[0]`"), ("array-of-strings", "`[\"\"]`"), ("mixed-array", "`[null,[1]]`"),
            ("object", "`{}`"), ("expref", "&@"), ("number-array-with-null", "`[null,0]`"), ("string-array-with-null", "`[null,\"\"]`"),
        ]
    }
}

pub fn doc() -> Value {
    json!({"a": 1, "xs": [{"a": 1}, {"a": 2}]})
}

pub fn check_call_expr(src: &str, d: &Value, sub: &str, st: &mut Stats) {
    check_call_expr_p("C06", src, d, sub, st)
}

pub fn check_call_expr_p(prop: &str, src: &str, d: &Value, sub: &str, st: &mut Stats) {
    st.states += 1;
    st.transitions += 1;
    st.evaluations += 1;
    let p = match rparse::parse(src) {
        Ok(p) => p,
        Err(e) => {
            st.count("MODEL_ERROR_generated_call_does_not_parse", 1);
            st.sample(|| json!({"MODEL_ERROR": src, "err": format!("{:?}", e)}));
            return;
        }
    };
    let expr = match guarded(|| jmespath::compile(src)) {
        Ok(Ok(e)) => e,
        other => {
            st.violate(Violation {
                key: format!("{}/call-does-not-compile", prop),
                check: sub.into(),
                case: json!({"kind": "call", "expression": src, "document": d}),
                expected: "compiles".into(),
                actual: format!("{:?}", other.map(|r| r.map(|_| ()).map_err(|e| e.reason))),
            });
            return;
        }
    };
    st.validated += 1;
    match check_top_call(&p, &expr, d, &value_to_var(d)) {
        Verdict::Agree(c) => {
            st.outcome(c);
            if c.starts_with("value") {
                st.nontrivial += 1;
            }
            if st.samples.len() < 12 && (st.states % 997 == 1) {
                st.sample(|| json!({"expression": src, "outcome": c}));
            }
        }
        Verdict::Skip => st.outcome("unspecified by the oracle"),
        Verdict::Mismatch { key, expected, actual } => {
            st.outcome("MISMATCH");
            st.violate(Violation {
                key: format!("{}/{}", prop, key),
                check: sub.into(),
                case: json!({"kind": "call", "expression": src, "document": d}),
                expected,
                actual,
            });
        }
    }
}

/// `wrapped` evaluates `call` against a null current node; its outcome must
/// be the outcome of `call` on the document null (general R-eval oracle)
pub fn check_wrapped(wrapped: &str, _call: &str, d: &Value, st: &mut Stats) {
    st.evaluations += 1;
    st.transitions += 1;
    let p = match rparse::parse(wrapped) {
        Ok(p) => p,
        Err(_) => {
            st.count("MODEL_ERROR_generated_call_does_not_parse", 1);
            return;
        }
    };
    let e = match guarded(|| jmespath::compile(wrapped)) {
        Ok(Ok(e)) => e,
        _ => return,
    };
    st.validated += 1;
    if let Some((exp, act, _)) = crate::oracle::compare(&p, &e, d, &value_to_var(d)) {
        st.violate(Violation {
            key: "C06/call-behind-null-left-hand-side".into(),
            check: "decision-table".into(),
            case: json!({"kind": "search", "expression": wrapped, "document": d}),
            expected: exp,
            actual: act,
        });
    }
}

fn tuples(n: usize, k: usize) -> Vec<Vec<usize>> {
    let mut out = vec![vec![]];
    for _ in 0..k {
        let mut next = Vec::new();
        for t in &out {
            for i in 0..n {
                let mut u = t.clone();
                u.push(i);
                next.push(u);
            }
        }
        out = next;
    }
    out
}

pub fn names() -> Vec<String> {
    let mut v: Vec<String> = signatures().iter().map(|s| s.name.to_string()).collect();
    v.push("nosuchfn".into());
    v.push("Abs".into());
    v
}

pub fn run(tier: Tier) -> i32 {
    let mut rep = Report::new("C06", tier);
    let d = doc();
    let sigs = signatures();
    let mut work: Vec<(String, usize, bool)> = Vec::new(); // (name, argc, second representatives)
    for name in names() {
        let (declared, variadic) = sigs.iter().find(|s| s.name == name).map(|s| (s.params.len(), s.variadic.is_some())).unwrap_or((1, false));
        let maxc = if variadic { 4 } else { declared + 2 };
        for c in 0..=maxc {
            work.push((name.clone(), c, false));
            work.push((name.clone(), c, true));
        }
    }
    let mut st = par_sweep(work, |(name, argc, second), st| {
        let cl = classes(*second);
        for t in tuples(cl.len(), *argc) {
            let args: Vec<&str> = t.iter().map(|&i| cl[i].1).collect();
            let src = format!("{}({})", name, args.join(", "));
            check_call_expr(&src, &d, "decision-table", st);
            if *argc <= 2 {
                // the same cell reached through a null left-hand side: errors and values must not be lost
                let p1 = format!("nokey | {}", src);
                let p2 = format!("`null` | {}", src);
                // both operands of a comparison are evaluated, whatever the other one is
                let p3 = format!("'s' < {}", src);
                let p4 = format!("nokey >= {}", src);
                let p5 = format!("{} <= `[1]`", src);
                let p6 = format!("xs[?'s' > {}]", src);
                let p7 = format!("`true` == {}", src);
                // the right-hand side of a projection is evaluated for every element, null elements included
                let p8 = format!("`[null]`[*].{}", src);
                let p9 = format!("`[[null, null]]`[].{}", src);
                let p10 = format!("`{{\"k\": null}}`.*.{}", src);
                for w in [p1, p2, p3, p4, p5, p6, p7, p8, p9, p10] {
                    crate::checks::c06::check_wrapped(&w, &src, &d, st);
                }
            }
            if tier == Tier::Thorough && *argc <= 2 {
                // the same cell nested: behind a pipe and as the operand of a projection element
                check_call_expr(&format!("{}({})", name, args.join(",")), &json!({"a": [1, 2], "xs": []}), "decision-table", st);
            }
        }
    });
    // the same table with the arguments taken from the document (fields and the current node) instead of
    // literals: a repeated field / `@` hands the *same node* to two parameters of different declared types
    {
        let fields: Vec<(&str, Value)> = vec![
            ("n", json!(null)), ("t", json!(true)), ("num", json!(1)), ("s", json!("a")), ("ea", json!([])), ("an", json!([1, 2])),
            ("ss", json!(["a", "b"])), ("mx", json!([1, "a"])), ("o", json!({"a": 1})), ("nn", json!([1, null])),
        ];
        let fd: Value = Value::Object(fields.iter().map(|(k, v)| (k.to_string(), v.clone())).collect());
        let mut work2: Vec<(String, usize)> = Vec::new();
        for name in names() {
            let (declared, variadic) = sigs.iter().find(|s| s.name == name).map(|s| (s.params.len(), s.variadic.is_some())).unwrap_or((1, false));
            let maxc = if variadic { 3 } else { (declared + 1).min(3) };
            for c in 1..=maxc {
                work2.push((name.clone(), c));
            }
        }
        let fd2 = fd.clone();
        let s2 = par_sweep(work2, |(name, argc), st| {
            for t in tuples(fields.len(), *argc) {
                let args: Vec<&str> = t.iter().map(|&i| fields[i].0).collect();
                check_call_expr(&format!("{}({})", name, args.join(", ")), &fd2, "decision-table-document-arguments", st);
            }
            // every argument is the current node
            for (_, v) in &fields {
                let args = vec!["@"; *argc];
                check_call_expr(&format!("{}({})", name, args.join(", ")), v, "decision-table-current-node", st);
                if *argc == 2 {
                    check_call_expr(&format!("{}(@, &@)", name), v, "decision-table-current-node", st);
                    check_call_expr(&format!("{}(&@, @)", name), v, "decision-table-current-node", st);
                }
            }
        });
        st = st.merge(s2);
    }
    // the same calls as hand-built expressions: Expression::new(label, parse(src), runtime) with a label that is
    // not the source text (empty, shorter than the node offsets, non-ASCII); outcome as through compile()
    {
        let cl = classes(false);
        let mut srcs: Vec<String> = Vec::new();
        for name in names() {
            srcs.push(format!("{}()", name));
            for a in &cl {
                srcs.push(format!("{}({})", name, a.1));
                srcs.push(format!("not_null(a, {}({}))", name, a.1));
                for b in [&cl[2], &cl[3], &cl[5], &cl[9]] {
                    srcs.push(format!("{}({}, {})", name, a.1, b.1));
                }
            }
        }
        let dd = d.clone();
        let s3 = par_sweep(srcs.chunks(32).map(|c| c.to_vec()).collect(), |chunk: &Vec<String>, st| {
            for src in chunk {
                let ast = match guarded(|| jmespath::parse(src)) {
                    Ok(Ok(a)) => a,
                    _ => continue,
                };
                let p = match rparse::parse(src) {
                    Ok(p) => p,
                    Err(_) => continue,
                };
                let strict = crate::reval::Eval::builtin();
                let r = strict.search(&p.tree, &dd);
                if crate::oracle::unspecified(&r) {
                    continue;
                }
                let via_compile = match guarded(|| jmespath::compile(src)) {
                    Ok(Ok(e)) => crate::oracle::run_impl(&e, &value_to_var(&dd)).sem(),
                    _ => continue,
                };
                for label in ["", "x", "\u{20ac}\u{20ac}\u{20ac}\u{20ac}\u{20ac}\u{20ac}\u{20ac}\u{20ac}\u{20ac}\u{20ac}\u{20ac}\u{20ac}", "prix-en-\u{20ac}-par-unit\u{e9}-hors-taxe-\u{20ac}\u{20ac}"] {
                    st.states += 1;
                    st.transitions += 1;
                    st.evaluations += 1;
                    st.validated += 1;
                    let e = jmespath::Expression::new(label, ast.clone(), &jmespath::DEFAULT_RUNTIME);
                    let got = crate::oracle::run_impl(&e, &value_to_var(&dd)).sem();
                    if got != via_compile {
                        st.violate(Violation {
                            key: "C06/hand-built-expression-differs".into(),
                            check: "expression-new".into(),
                            case: json!({"kind": "expression-new", "expression": src, "label": label, "document": dd}),
                            expected: via_compile.clone(),
                            actual: got,
                        });
                    } else {
                        st.outcome("hand-built expression agrees");
                    }
                }
            }
        });
        st = st.merge(s3);
    }
    // by-functions x key type vectors
    let keyvals = [json!(1), json!("s"), json!(null), json!(true), json!([1]), json!({}), json!(2.5), json!("")];
    let mut docs: Vec<Value> = vec![json!([])];
    let maxlen = tier.pick(3, 4);
    for len in 1..=maxlen {
        for t in tuples(keyvals.len(), len) {
            docs.push(Value::Array(t.iter().map(|&i| json!({"a": keyvals[i], "i": i})).collect()));
        }
    }
    let sb = par_sweep(docs.chunks(64).map(|c| c.to_vec()).collect(), |chunk: &Vec<Value>, st| {
        for d in chunk {
            for f in ["max_by(@, &a)", "min_by(@, &a)", "sort_by(@, &a)", "map(&a, @)", "max_by(@, &i)", "sort_by(@, &type(a))", "sort_by(@, &@ | a)", "max_by(@, &a || i)", "map(&a | @, @)", "min_by(@, &[a][0] | @)"] {
                check_call_expr(f, d, "by-function-key-types", st);
            }
        }
    });
    st = st.merge(sb);
    // long typed arrays: a well-typed temporary of n elements, then a badly typed temporary of
    // the same length, in one expression and across searches on the same thread
    for n in tier.pick(vec![31usize, 32, 33, 40, 64, 100, 257], vec![31, 32, 33, 40, 63, 64, 65, 100, 128, 255, 256, 257, 1000, 4096]) {
        let good_n: Vec<Value> = (0..n).map(|i| json!(i)).collect();
        let good_s: Vec<Value> = (0..n).map(|i| json!(format!("s{}", i))).collect();
        let mut bad_n = good_n.clone();
        bad_n[n - 1] = json!("x");
        let mut bad_s = good_s.clone();
        bad_s[n / 2] = json!(null);
        let mut bad_first = good_n.clone();
        bad_first[0] = json!([1]);
        let dd = json!({"gn": good_n, "gs": good_s, "bn": bad_n, "bs": bad_s, "bf": bad_first});
        for round in 0..3 {
            let _ = round;
            for f in ["sum", "avg", "max", "min", "sort"] {
                for (g, b) in [("gn", "bn"), ("gn", "bf"), ("gs", "bn")] {
                    for form in [format!("[{f}({g}[*]), {f}({b}[*])]"), format!("{f}({b}[*])"), format!("{f}({g}[*]) && {f}({b}[1:] )"), format!("{f}({b}[?@ || !@])"), format!("[{f}({g}), {f}({b})]")] {
                        if f == "sum" || f == "avg" {
                            if g == "gs" { continue; }
                        }
                        crate::checks::c06::check_wrapped(&form, "", &dd, &mut st);
                    }
                }
            }
            for form in ["[join(',', gs[*]), join(',', bs[*])]", "join(',', bs[*])", "[max(gs[*]), max(bs[*])]", "[sort(gs[*]), sort(bn[*])]"] {
                crate::checks::c06::check_wrapped(form, "", &dd, &mut st);
            }
        }
    }
    // well-typed calls whose mathematical result is not a finite double: whatever the library does about it (an
    // error -- how it is classified is C12's business -- or a number), it does not hand back a value outside the
    // declared result type
    for dd in [json!([1e308, 1e308]), json!([9e307, 9e307, 9e307, -9e307]), json!([-1e308, -1e308]), json!([1.7976931348623157e308, 1e292])] {
        for e in ["sum(@)", "avg(@)", "sum(@[*])", "[sum(@)]", "abs(sum(@))", "type(sum(@))", "type(avg(@))", "sum([sum(@), `1`])"] {
            st.states += 1;
            st.evaluations += 1;
            st.validated += 1;
            let out = crate::implx::impl_search(e, &dd);
            let bad = match &out {
                crate::implx::Out::Value(v, _) => {
                    let inner = if e.starts_with('[') { v.get(0).cloned().unwrap_or(Value::Null) } else { v.clone() };
                    if e.starts_with("type(") { inner != json!("number") } else { !inner.is_number() }
                }
                crate::implx::Out::SearchErr(_) => false,
                _ => true,
            };
            if bad {
                st.violate(Violation { key: "C06/result-type/non-finite".into(), check: "non-finite-results".into(), case: json!({"kind": "call", "expression": e, "document": dd}), expected: "an error or a number (declared result type)".into(), actual: out.brief() });
            } else {
                st.outcome("non-finite result: error or number");
            }
        }
    }
    // a runtime on which nothing (or not everything) is registered: every builtin name is unknown there
    {
        let empty = jmespath::Runtime::new();
        let mut partial = jmespath::Runtime::new();
        partial.register_builtin_functions();
        for s in signatures() {
            partial.deregister_function(s.name);
            for (rt, what) in [(&empty, "fresh runtime"), (&partial, "after deregistration")] {
                st.states += 1;
                st.evaluations += 1;
                st.validated += 1;
                let src = format!("{}(`1`)", s.name);
                let r = guarded(|| rt.compile(&src).unwrap().search(()).map(|v| v.to_string()).map_err(|e| crate::implx::classify(&e)));
                if !matches!(&r, Ok(Err(crate::implx::IClass::Rt(crate::reval::ErrClass::UnknownFunction)))) {
                    st.violate(Violation { key: format!("C06/unregistered-name/{}", s.name), check: "unregistered".into(), case: json!({"kind": "unregistered", "name": s.name, "runtime": what}), expected: "unknown-function".into(), actual: format!("{:?}", r) });
                } else {
                    st.outcome("unknown function");
                }
            }
        }
    }
    // the registry that counts is the one the expression was compiled on, wherever the call stands: a runtime with
    // every builtin except one -- the missing name is unknown at top level, behind a pipe, in a projection, in a
    // filter, as an argument, and inside the expression reference of map / sort_by / max_by / min_by; a custom
    // function registered only there is found in all of those places (searched on the document 1: a multi-select on a null document is null without evaluating anything)
    {
        let places = [
            "F(`1`)", "`1` | F(@)", "[`1`][*].F(@)", "[`1`][?F(@)]", "not_null(F(`1`))", "[F(`1`)]", "{a: F(`1`)}",
            "map(&F(@), `[1]`)", "sort_by(`[1, 2]`, &F(@))", "max_by(`[1]`, &F(@))", "min_by(`[1, 2]`, &F(@))", "sort_by(`[2, 1]`, &F(@))[0]", "map(&[F(@)], `[1]`)", "sort_by(`[1, 2]`, &not_null(F(@), @))",
        ];
        for s in signatures() {
            let mut rt = jmespath::Runtime::new();
            rt.register_builtin_functions();
            rt.deregister_function(s.name);
            for pl in places {
                let src = pl.replace('F', s.name);
                // the wrapper itself may be the missing function: unknown-function either way
                st.states += 1;
                st.evaluations += 1;
                st.validated += 1;
                let r = guarded(|| rt.compile(&src).unwrap().search(1).map(|v| v.to_string()).map_err(|e| crate::implx::classify(&e)));
                if !matches!(&r, Ok(Err(crate::implx::IClass::Rt(crate::reval::ErrClass::UnknownFunction)))) {
                    st.violate(Violation { key: format!("C06/unregistered-name/{}", s.name), check: "unregistered".into(), case: json!({"kind": "unregistered", "name": s.name, "runtime": "all builtins but this one", "expression": src}), expected: "unknown-function".into(), actual: format!("{:?}", r) });
                } else {
                    st.outcome("unknown function");
                }
            }
        }
        let mut rt = jmespath::Runtime::new();
        rt.register_builtin_functions();
        rt.register_function("cf", Box::new(|args: &[jmespath::Rcvar], _: &mut jmespath::Context<'_>| Ok(args[0].clone())));
        for (pl, want) in [
            ("F(`1`)", "1"), ("`1` | F(@)", "1"), ("[`1`][*].F(@)", "[1]"), ("[`1`][?F(@)]", "[1]"), ("not_null(F(`1`))", "1"), ("[F(`1`)]", "[1]"), ("{a: F(`1`)}", "{\"a\":1}"),
            ("map(&F(@), `[1]`)", "[1]"), ("sort_by(`[2, 1]`, &F(@))", "[1,2]"), ("max_by(`[1, 2]`, &F(@))", "2"), ("min_by(`[1, 2]`, &F(@))", "1"), ("map(&[F(@)], `[1]`)", "[[1]]"), ("sort_by(`[2, 1]`, &not_null(F(@), @))", "[1,2]"),
        ] {
            let src = pl.replace('F', "cf");
            st.states += 1;
            st.evaluations += 1;
            st.validated += 1;
            let r = guarded(|| rt.compile(&src).unwrap().search(1).map(|v| v.to_string()).map_err(|e| crate::implx::classify(&e)));
            if !matches!(&r, Ok(Ok(v)) if v == want) {
                st.violate(Violation { key: "C06/registered-name-not-found".into(), check: "unregistered".into(), case: json!({"kind": "unregistered", "name": "cf", "runtime": "builtins + cf", "expression": src}), expected: want.into(), actual: format!("{:?}", r) });
            } else {
                st.nontrivial += 1;
                st.outcome("value");
            }
        }
    }
    let model_err: u64 = st.counters.iter().filter(|(k, _)| k.starts_with("MODEL_ERROR")).map(|(_, v)| *v).sum();
    rep.guard("every generated call parses in the reference", model_err == 0);
    rep.guard("all outcome classes occur", ["invalid-arity", "invalid-type", "unknown function", "value"].iter().all(|k| st.outcomes.get(*k).cloned().unwrap_or(0) > 10));
    rep.rule = "the full decision table: 26 builtins + 2 unknown names x every argument count 0..declared+2 (variadic to 4) x every combination of the 10 argument type classes per position (as literals / &expr), plus by-functions x every key type vector up to the bound. Oracle: R-fn signature table (arity before types, unknown name after argument evaluation, declared result type). states = table cells; non-trivial = the call is well-typed and returns a value The same table with arguments taken from the document (10 fields, every tuple up to 3 positions, so a repeated field hands the same node to two parameters) and with the current node in every position; the same calls as hand-built expressions (Expression::new with an empty / short / non-ASCII label) must behave as through compile(). Every cell with up to two arguments also as an operand of a comparison whose other operand is not a number ('s' < call, nokey >= call, call <= `[1]`, inside a filter, `true` == call).".into();
    rep.bounds = json!({"classes": classes(false).iter().map(|c| c.0).collect::<Vec<_>>(), "by_function_array_len": maxlen, "second_representatives": tier == Tier::Thorough});
    rep.stats = st;
    rep.finish()
}

pub fn replay(case: &Value) -> Option<(String, bool)> {
    if case["kind"] == json!("expression-new") {
        let src = case["expression"].as_str()?;
        let label = case["label"].as_str()?;
        let dd = &case["document"];
        let ast = jmespath::parse(src).ok()?;
        let via_compile = crate::oracle::run_impl(&jmespath::compile(src).ok()?, &value_to_var(dd)).sem();
        let e = jmespath::Expression::new(label, ast, &jmespath::DEFAULT_RUNTIME);
        let got = crate::oracle::run_impl(&e, &value_to_var(dd)).sem();
        return Some((format!("through compile(): {} ; through Expression::new({:?}, ..): {}", via_compile, label, got), got != via_compile));
    }
    if case["kind"] == json!("unregistered") && case["expression"].is_string() {
        // the expression on the runtime the case names: every builtin but `name`, or the builtins plus `cf`
        let src = case["expression"].as_str()?;
        let name = case["name"].as_str()?;
        let mut rt = jmespath::Runtime::new();
        rt.register_builtin_functions();
        let want_unknown = case["runtime"] == json!("all builtins but this one");
        if want_unknown {
            rt.deregister_function(name);
        } else {
            rt.register_function("cf", Box::new(|args: &[jmespath::Rcvar], _: &mut jmespath::Context<'_>| Ok(args[0].clone())));
        }
        let r = guarded(|| rt.compile(src).unwrap().search(1).map(|v| v.to_string()).map_err(|e| crate::implx::classify(&e)));
        let bad = if want_unknown { !matches!(&r, Ok(Err(crate::implx::IClass::Rt(crate::reval::ErrClass::UnknownFunction)))) } else { !matches!(&r, Ok(Ok(_))) };
        return Some((format!("{} on the runtime '{}': {:?}", src, case["runtime"].as_str().unwrap_or(""), r), bad));
    }
    let mut st = Stats::default();
    check_call_expr(case["expression"].as_str()?, &case["document"], "replay", &mut st);
    Some(match st.violations.first() {
        Some(v) => (format!("{}: expected {} actual {}", v.key, v.expected, v.actual), true),
        None => ("agree".into(), false),
    })
}
