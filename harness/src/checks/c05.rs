//! C05 -- compile and search are total: no panic, abort or hang on any input.
use crate::checks::c03::{char_dfs, char_shards};
use crate::checks::c12::SIGMA_EXT;
use crate::engine::{par_sweep, watched, Report, Stats, Tier, Violation};
use crate::enumr::t22;
use crate::implx::{guarded, value_to_var};
use jmespath::{Rcvar, Variable};
use serde_json::{json, Value};
use std::io::Write;

thread_local! {
    static DOCS: Vec<(Value, Rcvar)> = docs().into_iter().map(|d| { let r = value_to_var(&d); (d, r) }).collect();
}

pub fn docs() -> Vec<Value> {
    vec![
        json!(null),
        json!([]),
        json!([1]),
        json!([1, 2]),
        json!([[1, "a"], {"a": [1, 2, 3]}, null]),
        json!("abc"),
        json!({"a": [0, 1, 2], "q": {"a": 1}}),
        json!({"a": {"a": [[1, 2], [3]]}}),
    ]
}

fn panic_key(m: &str) -> String {
    if m.contains("overflow") {
        "C05/panic/arithmetic-overflow".into()
    } else if m.contains("index out of bounds") || m.contains("out of range") {
        "C05/panic/index-out-of-bounds".into()
    } else if m.contains("unreachable") {
        "C05/panic/unreachable".into()
    } else if m.contains("unwrap") || m.contains("expect") {
        "C05/panic/unwrap".into()
    } else {
        "C05/panic/other".into()
    }
}

/// compile; when it compiles: clone, search every document, drop
pub fn total(s: &str, sub: &str, st: &mut Stats) {
    st.evaluations += 1;
    st.validated += 1;
    let r = watched(s, || {
        guarded(|| match jmespath::compile(s) {
            Err(_) => 0usize,
            Ok(e) => {
                let c = e.clone();
                let mut n = 1;
                DOCS.with(|docs| {
                    for (_, rc) in docs {
                        let _ = c.search(rc.clone());
                        n += 1;
                    }
                });
                drop(e);
                n
            }
        })
    });
    match r {
        Ok(0) => st.outcome("rejected"),
        Ok(n) => {
            st.nontrivial += 1;
            st.transitions += n as u64;
            st.outcome("compiled and searched");
            if st.nontrivial % 40009 == 1 {
                st.sample(|| json!({"expression": s}));
            }
        }
        Err(m) => st.violate(Violation {
            key: panic_key(&m),
            check: sub.into(),
            case: json!({"kind": "total", "expression": s}),
            expected: "Ok or Err".into(),
            actual: format!("panic: {}", m),
        }),
    }
}

pub const FAMILIES: &[&str] = &[
    "parens", "not", "dots", "or", "and", "pipe", "index", "wildcard", "flatten", "multilist", "multihash", "call", "filter",
    "comparison", "literal-json", "document-array", "document-object", "quoted-long", "slice-chain", "expref-chain",
];

pub fn family_expr(f: &str, n: usize) -> (String, Option<usize>) {
    // (expression, depth of a generated document or None for the fixed one)
    let rep = |s: &str, n: usize| s.repeat(n);
    match f {
        "parens" => (format!("{}a{}", rep("(", n), rep(")", n)), None),
        "not" => (format!("{}a", rep("!", n)), None),
        "dots" => (format!("a{}", rep(".a", n)), None),
        "or" => (format!("a{}", rep("||a", n)), None),
        "and" => (format!("a{}", rep("&&a", n)), None),
        "pipe" => (format!("a{}", rep("|a", n)), None),
        "index" => (format!("a{}", rep("[0]", n)), None),
        "wildcard" => (format!("a{}", rep("[*]", n)), None),
        "flatten" => (format!("a{}", rep("[]", n)), None),
        "multilist" => (format!("{}a{}", rep("[", n), rep("]", n)), None),
        "multihash" => (format!("{}a{}", rep("{a:", n), rep("}", n)), None),
        "call" => (format!("{}a{}", rep("to_array(", n), rep(")", n)), None),
        "filter" => (format!("{}a{}", rep("a[?", n), rep("]", n)), None),
        "comparison" => (format!("a{}", rep("==a", n)), None),
        "literal-json" => (format!("`{}1{}`", rep("[", n), rep("]", n)), None),
        "document-array" => ("[@, [0], [], [*], to_string(@), length(@), @ == @]".to_string(), Some(n)),
        "document-object" => ("[@, a, *, keys(@), to_string(@), a.a == a]".to_string(), Some(n)),
        "quoted-long" => (format!("\"{}\"", rep("\\u00e9", n)), None),
        "slice-chain" => (format!("a{}", rep("[::-1]", n)), None),
        "expref-chain" => (format!("{}a{}", rep("map(&", n), rep(", a)", n)), None),
        _ => panic!("unknown family {}", f),
    }
}

/// Child mode: one family member on a thread with a fixed 8 MiB stack.
pub fn family_child(f: &str, n: usize) -> i32 {
    let f = f.to_string();
    let h = std::thread::Builder::new()
        .stack_size(8 * 1024 * 1024)
        .spawn(move || {
            let phase = |p: &str| {
                println!("PHASE {}", p);
                std::io::stdout().flush().ok();
            };
            let (src, docdepth) = family_expr(&f, n);
            let doc: Rcvar = match docdepth {
                None => value_to_var(&json!({"a": {"a": [[1, 2], [3]]}})),
                Some(d) => {
                    phase("build-document");
                    let mut cur = Rcvar::new(Variable::Number(1.into()));
                    for _ in 0..d {
                        if f == "document-array" {
                            cur = Rcvar::new(Variable::Array(vec![cur]));
                        } else {
                            let mut m = std::collections::BTreeMap::new();
                            m.insert("a".to_string(), cur);
                            cur = Rcvar::new(Variable::Object(m));
                        }
                    }
                    cur
                }
            };
            phase("compile");
            let r = std::panic::catch_unwind(std::panic::AssertUnwindSafe(|| jmespath::compile(&src)));
            let e = match r {
                Err(_) => {
                    println!("PANIC compile");
                    return 3;
                }
                Ok(Err(_)) => {
                    println!("RESULT compile-error");
                    return 0;
                }
                Ok(Ok(e)) => e,
            };
            phase("clone");
            let c = e.clone();
            phase("search");
            let r = std::panic::catch_unwind(std::panic::AssertUnwindSafe(|| c.search(doc.clone()).is_ok()));
            if r.is_err() {
                println!("PANIC search");
                return 3;
            }
            phase("debug-format");
            let s = format!("{:?}", e.as_ast());
            std::hint::black_box(s.len());
            phase("drop");
            drop(c);
            drop(e);
            drop(doc);
            phase("done");
            println!("RESULT ok");
            0
        })
        .unwrap();
    h.join().unwrap_or(4)
}

#[derive(Debug, Clone)]
pub struct FamilyOutcome {
    pub ok: bool,
    pub phase: String,
    pub detail: String,
    pub secs: f64,
}

pub fn run_family(f: &str, n: usize, timeout_s: u64) -> FamilyOutcome {
    let exe = std::env::current_exe().unwrap();
    let t0 = std::time::Instant::now();
    let mut child = std::process::Command::new(exe)
        .arg("C05-family")
        .arg(f)
        .arg(n.to_string())
        .stdout(std::process::Stdio::piped())
        .stderr(std::process::Stdio::null())
        .spawn()
        .expect("spawn family child");
    let status = loop {
        match child.try_wait().unwrap() {
            Some(s) => break Some(s),
            None => {
                if t0.elapsed().as_secs() > timeout_s {
                    child.kill().ok();
                    child.wait().ok();
                    break None;
                }
                std::thread::sleep(std::time::Duration::from_millis(5));
            }
        }
    };
    let mut out = String::new();
    if let Some(mut so) = child.stdout.take() {
        use std::io::Read;
        so.read_to_string(&mut out).ok();
    }
    let phase = out.lines().filter(|l| l.starts_with("PHASE ")).last().map(|l| l[6..].to_string()).unwrap_or_default();
    let secs = t0.elapsed().as_secs_f64();
    match status {
        None => FamilyOutcome { ok: false, phase, detail: format!("no result after {} s (hang)", timeout_s), secs },
        Some(s) if s.success() => FamilyOutcome { ok: true, phase, detail: out.lines().last().unwrap_or("").to_string(), secs },
        Some(s) => {
            use std::os::unix::process::ExitStatusExt;
            let d = match s.signal() {
                Some(sig) => format!("killed by signal {} (stack overflow / abort)", sig),
                None => format!("exit status {:?} {}", s.code(), out.lines().last().unwrap_or("")),
            };
            FamilyOutcome { ok: false, phase, detail: d, secs }
        }
    }
}

pub fn run(tier: Tier) -> i32 {
    let mut rep = Report::new("C05", tier);
    crate::engine::start_watchdog("C05", std::time::Duration::from_secs(60));
    crate::engine::install_crash_handler("C05");
    let mut st = Stats::default();
    // (a) character strings
    let k = tier.pick(5, 6);
    let mut s0 = Stats::default();
    char_dfs(SIGMA_EXT, "", 0, 1, &mut s0, &mut |s, st| total(s, "character-strings", st));
    st = st.merge(s0);
    let sa = par_sweep(char_shards(SIGMA_EXT, 2), |p, st| {
        char_dfs(SIGMA_EXT, p, 2, k, st, &mut |s, st| total(s, "character-strings", st));
    });
    st = st.merge(sa);
    // (b) token sequences with extreme numbers, compiled and searched
    let mut texts: Vec<&'static str> = t22().texts.clone();
    texts.extend_from_slice(&["2147483647", "-2147483647", "-2147483648", "2147483646", "1073741824", "-1073741824", "2147483648", "0", "-1", "2", "b", "&&", "<"]);
    let l = tier.pick(5, 6);
    let nt = texts.len();
    let firsts: Vec<(usize, usize)> = (0..nt).flat_map(|a| (0..nt).map(move |b| (a, b))).collect();
    for a in 0..nt {
        st.states += 1;
        total(texts[a], "token-sequences", &mut st);
    }
    let sb = par_sweep(firsts, |&(a, b), st| {
        // DFS; prune subtrees whose prefix already fails to *lex or parse as a prefix*?  No: the
        // implementation decides; but a sequence is only searched when it compiles, and a
        // prefix that cannot be extended to a sentence is still compiled at every length.
        fn rec(texts: &[&'static str], s: &mut String, len: usize, l: usize, st: &mut Stats) {
            st.states += 1;
            total(s, "token-sequences", st);
            if len >= l {
                return;
            }
            // restrict the deeper levels to tokens that matter around numbers and brackets
            for t in texts {
                st.transitions += 1;
                let keep = s.len();
                s.push(' ');
                s.push_str(t);
                rec(texts, s, len + 1, l, st);
                s.truncate(keep);
            }
        }
        // the full alphabet for the first two tokens, a bracket/number-centred alphabet below
        let deep: Vec<&'static str> = vec!["a", "[", "]", ":", ".", "*", "[]", "[?", "2147483647", "-2147483647", "-2147483648", "1073741824", "-1", "0", "2", "|", "||", "(", ")", ",", "&", "`1`"];
        let mut s = format!("{} {}", texts[a], texts[b]);
        rec(&deep, &mut s, 2, l, st);
    });
    st = st.merge(sb);
    // slices / indexes with every pair of extreme numbers against every document
    let ext: Vec<String> = ["", "0", "1", "-1", "2", "3", "2147483647", "-2147483647", "-2147483648", "2147483646", "1073741824", "-1073741824", "1073741823"].iter().map(|s| s.to_string()).collect();
    for a in &ext {
        for b in &ext {
            for c in &ext {
                st.states += 1;
                total(&format!("[{}:{}:{}]", a, b, c), "extreme-slices", &mut st);
                total(&format!("a[{}:{}:{}][{}]", a, b, c, if b.is_empty() { "0" } else { b }), "extreme-slices", &mut st);
            }
        }
    }
    // every *sentence* over a number-centred alphabet (so that the searched share is large)
    {
        let alpha = crate::enumr::Alphabet::new(&["a", ".", "*", "[]", "[?", "[", "]", ":", ",", "|", "||", "==", "!", "(", ")", "0", "-1", "2", "2147483647", "-2147483647", "-2147483648", "1073741824", "-1073741824", "`1`"]);
        let g = crate::gram::Grammar::new(Default::default());
        let sl = tier.pick(7, 8);
        let ss = par_sweep(crate::enumr::shards(alpha.len(), 2), |p, st| {
            let mut list: Vec<String> = Vec::new();
            let (n, e) = crate::enumr::sentences(&g, &alpha, p, sl, &mut |seq| list.push(alpha.render(seq)));
            st.states += n;
            st.transitions += e;
            for s in &list {
                total(s, "extreme-number-sentences", st);
            }
        });
        st = st.merge(ss);
    }
    // long flat inputs: prefix + unit^n + suffix (length ladders through every quoted form,
    // multi-byte units at every byte alignment, long operator runs)
    {
        let units = ["a", "é", "😀", "\\", "'", "\"", "`", "\\'", " ", "1", "[", ".", "a.", "[0]", "a,", "||a", "\n", "\u{1}", "٣", "-1", "&", "!", "*", "\\u00e9", "`1`"];
        let prefixes = ["", "'", "'a", "'ab", "'abc", "\"", "\"a", "\"\\", "`", "`\"", "`\"a", "a.", "[", "a[", "f(", "{a:"];
        let suffixes = ["", "'", "\"", "`", "\"`", "]", ")", "}"];
        let maxn = tier.pick(140, 300);
        let jobs: Vec<(usize, usize)> = (0..units.len()).flat_map(|u| (0..prefixes.len()).map(move |p| (u, p))).collect();
        let sl = par_sweep(jobs, |&(u, p), st| {
            for n in 0..=maxn {
                let body = units[u].repeat(n);
                for s in suffixes {
                    st.states += 1;
                    total(&format!("{}{}{}", prefixes[p], body, s), "long-flat-inputs", st);
                }
            }
        });
        st = st.merge(sl);
    }
    // sparse ladder of very long inputs whose error (if any) lies near the start, multi-byte
    // units at every alignment; errors are also rendered (Display) -- truncation / width limits live here
    {
        let sizes: Vec<usize> = tier.pick(vec![500, 1000, 1023, 1024, 1025, 2047, 2048, 2049, 4095, 4096, 4097, 8192, 32767, 32768, 65534, 65535, 65536, 65537], vec![500, 1000, 1023, 1024, 1025, 2047, 2048, 2049, 4095, 4096, 4097, 8191, 8192, 8193, 16384, 32767, 32768, 32769, 65533, 65534, 65535, 65536, 65537, 70000, 131072, 262144]);
        // the last five put a complete, well-formed long token where the parser does not expect one (the parser's
        // own diagnosis quotes the token it found)
        let heads = ["abs('", "=== '", "nosuch(@) || '", "a.b.c | length('", "'", "\"", "`\"", "\n\nabs('", "[?a == '", "to_number('", "a '", "a.'", "a \"", "a `\"", "[?a == 'x' '"];
        let units = ["a", "é", "😀", "\u{301}", "\u{200d}"];
        // and every short length (limits of a few dozen bytes live there)
        let sizes: Vec<usize> = (8..=160usize).chain(sizes.into_iter()).collect();
        let jobs: Vec<(usize, usize, usize)> = sizes.iter().flat_map(|&n| (0..heads.len()).flat_map(move |h| (0..units.len()).map(move |u| (n, h, u)))).collect();
        let sl = par_sweep(jobs, |&(n, h, u), st| {
            for pad in 0..4 {
                let body = units[u].repeat(n / units[u].len().max(1));
                let tail = match heads[h] {
                    x if x.ends_with('\'') => "')",
                    x if x.ends_with("`\"") => "\"`",
                    _ => "\"",
                };
                for closed in [true, false] {
                    let s = format!("{}{}{}{}", heads[h], "x".repeat(pad), body, if closed { tail } else { "" });
                    st.states += 1;
                    st.evaluations += 1;
                    st.validated += 1;
                    let r = watched("long sparse ladder", || {
                        guarded(|| match jmespath::compile(&s) {
                            Err(e) => e.to_string().len(),
                            Ok(x) => match x.search(()) {
                                Ok(v) => v.to_string().len(),
                                Err(e) => e.to_string().len(),
                            },
                        })
                    });
                    match r {
                        Ok(_) => st.outcome("long input handled (compile, search, render)"),
                        Err(m) => st.violate(Violation { key: panic_key(&m), check: "long-sparse-ladder".into(), case: json!({"kind": "ladder", "head": heads[h], "unit": units[u], "n": n, "pad": pad, "closed": closed}), expected: "Ok or Err, and the error renders".into(), actual: format!("panic: {}", m) }),
                    }
                }
            }
        });
        st = st.merge(sl);
    }
    // builtins on documents of extreme numeric magnitude
    {
        let docs = [json!([1e308, 1e308]), json!([-1e308, -1e308, -1e308]), json!([u64::MAX, u64::MAX]), json!([i64::MIN, -1]), json!([5e-324, 5e-324]), json!([1e308, -1e308, 1e308]), json!(1e308), json!(u64::MAX), json!(i64::MIN), json!({"a": 1e308, "b": -1e308}), json!([[1e308], [1e308]]), json!(["1e999", "-1e999", "1e308"])];
        let m = 64usize;
        let close: Vec<f64> = (0..m).map(|i| 1.0 + (i as f64) * f64::EPSILON).collect();
        let mut docs: Vec<Value> = docs.to_vec();
        docs.push(Value::Array(close.iter().rev().map(|x| json!(x)).collect()));
        docs.push(Value::Array((0..m).map(|i| json!(close[(i * 7) % m])).collect()));
        docs.push(Value::Array((0..500).map(|i| json!(1.0 + (((i * 37) % 500) as f64) * f64::EPSILON)).collect()));
        // integers and doubles of (nearly) the same value above 2^53, interleaved: a comparison that is not a total
        // order across the two representations makes the standard library's sort panic from 21 elements on
        {
            let base: Vec<Value> = vec![
                json!(9007199254740993u64), json!(9007199254740992.0), json!(9007199254740992u64), json!(9007199254740994u64), json!(9007199254740994.0),
                json!(9007199254740991u64), json!(9007199254740996.0), json!(9007199254740995u64), json!(-9007199254740993i64), json!(-9007199254740992.0),
                json!(18446744073709551615u64), json!(1.8446744073709552e19), json!(18446744073709549568u64), json!(9223372036854775807i64), json!(9.223372036854776e18), json!(9223372036854775808u64),
            ];
            for (len, mul, add) in [(21usize, 7usize, 0usize), (32, 7, 3), (64, 5, 1), (96, 11, 2), (200, 3, 0), (500, 13, 5)] {
                docs.push(Value::Array((0..len).map(|i| base[(i * mul + i / 5 + add) % base.len()].clone()).collect()));
                docs.push(Value::Array((0..len).map(|i| base[(i * i + add) % 8].clone()).collect()));
            }
        }
        let calls = ["sum(@)", "avg(@)", "max(@)", "min(@)", "sort(@)", "abs(@)", "ceil(@)", "floor(@)", "to_string(@)", "to_number(@)", "sum(*)", "avg(*)", "sum([])", "sum(@[])", "map(&abs(@), @)", "map(&to_number(@), @)", "sum(map(&to_number(@), @))", "sort_by(@, &@)", "max_by(@, &@)", "abs(sum(@))", "ceil(avg(@))", "length(to_string(@))", "@[0] < @[1]", "sum(@) == avg(@)", "join(',', map(&to_string(@), @))"];
        for d in &docs {
            let rc = value_to_var(d);
            for c in calls {
                st.states += 1;
                st.evaluations += 1;
                st.validated += 1;
                let r = watched(c, || guarded(|| jmespath::compile(c).map(|e| e.search(rc.clone()).is_ok())));
                match r {
                    Ok(_) => st.outcome("extreme-magnitude call returned"),
                    Err(m) => st.violate(Violation { key: panic_key(&m), check: "extreme-magnitude".into(), case: json!({"kind": "search", "expression": c, "document": d}), expected: "Ok or Err".into(), actual: format!("panic: {}", m) }),
                }
            }
        }
    }
    // re-entrant calls: every expref-taking builtin with every call form in its expression reference, two levels
    // deep (a builtin that keeps scratch state across the evaluation of its own argument is entered again here),
    // and calls re-entered through projections and filters inside the reference
    {
        let outer = ["sort_by(@, &I)", "max_by(@, &I)", "min_by(@, &I)", "map(&I, @)", "sort_by(@, &I)[0]", "[*].I", "[?I]"];
        let inner = [
            "sort_by(@, &@)[0]", "max_by(@, &@)", "min_by(@, &@)", "map(&@, @)[0]", "sort(@)[0]", "max(@)", "min(@)", "sum(@)", "avg(@)", "length(@)", "reverse(@)[0]", "join('', map(&to_string(@), @))",
            "to_string(@)", "to_array(@)[0]", "not_null(@[5], @[0])", "merge({a: @}, {b: @}).a[0]", "keys({a: @})[0]", "values({a: @[0]})[0]", "abs(@[0])", "contains(@, @[0])", "type(@)", "sort_by(@, &to_string(@))[0]", "[*].abs(@) | [0]", "[?@ > `0`] | [0]",
        ];
        let docs = [json!([[9, 4], [3, 1], [2, 5]]), json!([[["b", "a"], ["c"]], [["a"]]]), json!([]), json!([[1]]), json!([[3, "a"], [1]]), json!([[], [1]]), json!({"a": [[2, 1]]}), json!(null)];
        let mut exprs: Vec<String> = Vec::new();
        for o in outer {
            for i in inner {
                let one = o.replace('I', i);
                exprs.push(one.clone());
                // two levels: the inner call's own argument is a by-function again
                for o2 in ["sort_by(@, &J)", "map(&J, @)", "max_by(@, &J)"] {
                    exprs.push(o2.replace('J', &one));
                }
            }
        }
        let sr = par_sweep(exprs.chunks(32).map(|c| c.to_vec()).collect::<Vec<_>>(), |chunk: &Vec<String>, st| {
            for c in chunk {
                for d in &docs {
                    st.states += 1;
                    st.evaluations += 1;
                    st.validated += 1;
                    let rc = value_to_var(d);
                    match guarded(|| jmespath::compile(c).map(|e| e.search(rc.clone()).is_ok())) {
                        Ok(Ok(true)) => st.outcome("re-entrant call returned a value"),
                        Ok(_) => st.outcome("re-entrant call returned an error"),
                        Err(m) => st.violate(Violation { key: panic_key(&m), check: "re-entrant-calls".into(), case: json!({"kind": "search", "expression": c, "document": d}), expected: "Ok or Err".into(), actual: format!("panic: {}", m) }),
                    }
                }
            }
        });
        st.count("re_entrant_call_expressions", sr.states);
        st = st.merge(sr);
    }
    // sort / sort_by over arrays of 21..=24 numbers drawn from four neighbouring values above 2^53 in both
    // representations: every array that deviates from the constant array in at most three positions
    {
        let vals = [json!(9007199254740993u64), json!(9007199254740992u64), json!(9007199254740992.0), json!(9007199254740994u64)];
        // the same arrays over values of different types (a constant key makes every pair a tie)
        let mixed_vals = [json!(1), json!("a"), json!(2), json!("b")];
        let mut work: Vec<(usize, usize)> = Vec::new();
        for len in tier.pick(vec![21usize, 22], vec![21, 22, 23, 24, 32, 33]) {
            for first in 0..len {
                work.push((len, first));
            }
        }
        let sd = par_sweep(work, |&(len, first), st| {
            let sort = jmespath::compile("sort(@)").unwrap();
            let sort_by = jmespath::compile("sort_by(@, &@)").unwrap();
            let sort_by_const = jmespath::compile("sort_by(@, &`0`)").unwrap();
            let max_by_const = jmespath::compile("max_by(@, &'k')").unwrap();
            let sort_by_len = jmespath::compile("sort_by(@, &length(to_string(@)))").unwrap();
            let mut run = |arr: &Vec<usize>, st: &mut Stats| {
                let dm = Value::Array(arr.iter().map(|&i| mixed_vals[i].clone()).collect());
                let rcm = value_to_var(&dm);
                for (name, e) in [("sort_by(@, &`0`)", &sort_by_const), ("max_by(@, &'k')", &max_by_const), ("sort_by(@, &length(to_string(@)))", &sort_by_len)] {
                    st.states += 1;
                    st.evaluations += 1;
                    st.validated += 1;
                    match guarded(|| e.search(rcm.clone()).is_ok()) {
                        Ok(_) => st.outcome("mixed-type tie sort returned"),
                        Err(m) => st.violate(Violation { key: panic_key(&m), check: "mixed-type-tie-sort".into(), case: json!({"kind": "search", "expression": name, "document": dm}), expected: "Ok or Err".into(), actual: format!("panic: {}", m) }),
                    }
                }
                let d = Value::Array(arr.iter().map(|&i| vals[i].clone()).collect());
                let rc = value_to_var(&d);
                for (name, e) in [("sort(@)", &sort), ("sort_by(@, &@)", &sort_by)] {
                    st.states += 1;
                    st.evaluations += 1;
                    st.validated += 1;
                    match guarded(|| e.search(rc.clone()).is_ok()) {
                        Ok(_) => st.outcome("mixed-representation sort returned"),
                        Err(m) => st.violate(Violation { key: panic_key(&m), check: "mixed-representation-sort".into(), case: json!({"kind": "search", "expression": name, "document": d}), expected: "Ok or Err".into(), actual: format!("panic: {}", m) }),
                    }
                }
            };
            // deviations at positions first < j < k (first is the smallest deviating position)
            let mut arr = vec![0usize; len];
            if first == 0 {
                run(&arr, st);
            }
            for v1 in 1..4 {
                arr[first] = v1;
                run(&arr, st);
                for j in first + 1..len {
                    for v2 in 1..4 {
                        arr[j] = v2;
                        run(&arr, st);
                        for k in j + 1..len {
                            for v3 in 1..4 {
                                arr[k] = v3;
                                run(&arr, st);
                            }
                            arr[k] = 0;
                        }
                    }
                    arr[j] = 0;
                }
            }
        });
        st = st.merge(sd);
    }
    // trees from the parser (and a few hand-built ones) wrapped by Expression::new with a label that is not their
    // source text: empty, shorter than the node offsets, multi-byte characters at every alignment; every search
    // that fails must fail with an error value (the error constructor sees an offset foreign to the text)
    {
        use jmespath::ast::Ast;
        let srcs = [
            "abs(@)", "abs('x')", "nosuch(@)", "length()", "a.b.abs(c)", "not_null(a, abs(b))", "[::0]", "a[0:1:0]", "a[*].length(@)", "sort_by(@, &abs(@))", "max_by(a, &to_array(@))",
            "map(&nosuch(@), @)", "a || length(`1`)", "\n\n  abs('x')", "'\u{e9}\u{e9}\u{e9}' && abs('x')", "a[?abs(@) > `1`]", "{k: abs('x')}", "[abs('x'), 1]", "`1` < abs('x')", "!abs('x')",
        ];
        let labels = ["", "x", "q1", "\u{e9}", "a\u{e9}", "\u{20ac}\u{20ac}\u{20ac}\u{20ac}\u{20ac}\u{20ac}\u{20ac}\u{20ac}", "a\u{20ac}\u{20ac}\u{20ac}\u{20ac}\u{20ac}\u{20ac}\u{20ac}", "ab\u{20ac}\u{20ac}\u{20ac}\u{20ac}\u{20ac}\u{20ac}", "\u{1F600}\u{1F600}\u{1F600}\u{1F600}\u{1F600}\u{1F600}", "a\u{1F600}\u{1F600}\u{1F600}\u{1F600}\u{1F600}", "ab\u{1F600}\u{1F600}\u{1F600}\u{1F600}", "abc\u{1F600}\u{1F600}\u{1F600}\u{1F600}", "gr\u{f6}\u{df}e", "\u{65e5}\u{672c}", "n\u{20ac} lookup by name", "line one\n\u{e9}\u{e9}\u{e9}\u{e9}\u{e9}\u{e9}\u{e9}\u{e9}\u{e9}\u{e9}\u{e9}\u{e9}"];
        let docs = [json!(null), json!("x"), json!([1, "a"]), json!({"a": [1, 2], "b": "s"})];
        let mut trees: Vec<(String, Ast)> = srcs.iter().filter_map(|s| jmespath::parse(s).ok().map(|a| (s.to_string(), a))).collect();
        for off in [0usize, 1, 2, 3, 5, 7, 64, 100_000] {
            trees.push((format!("hand-built abs() at offset {}", off), Ast::Function { offset: off, name: "abs".into(), args: vec![] }));
            trees.push((format!("hand-built nosuch(@) at offset {}", off), Ast::Function { offset: off, name: "nosuch".into(), args: vec![Ast::Identity { offset: off }] }));
            trees.push((format!("hand-built [::0] at offset {}", off), Ast::Slice { offset: off, start: None, stop: None, step: 0 }));
        }
        for (what, ast) in &trees {
            for label in labels {
                for d in &docs {
                    st.states += 1;
                    st.evaluations += 1;
                    st.validated += 1;
                    let rc = value_to_var(d);
                    let r = guarded(|| {
                        let e = jmespath::Expression::new(label, ast.clone(), &jmespath::DEFAULT_RUNTIME);
                        match e.search(rc.clone()) {
                            Ok(_) => true,
                            Err(err) => {
                                // the error value must be usable
                                let _ = err.to_string();
                                let _ = format!("{:?}", err);
                                false
                            }
                        }
                    });
                    match r {
                        Ok(_) => st.outcome("hand-built expression returned"),
                        Err(m) => st.violate(Violation { key: panic_key(&m), check: "foreign-label".into(), case: json!({"kind": "foreign-label", "tree": what, "label": label, "document": d}), expected: "Ok or Err, and the error renders".into(), actual: format!("panic: {}", m) }),
                    }
                }
            }
        }
    }
    // (c) nesting families, one subprocess each
    let depths: Vec<usize> = tier.pick(vec![8, 64, 512, 4096, 32768], vec![8, 64, 512, 4096, 32768, 262144]);
    let known = crate::engine::load_known_raw();
    let jobs: Vec<(&str, usize)> = FAMILIES.iter().flat_map(|f| depths.iter().map(move |d| (*f, *d))).collect();
    let results: Vec<((&str, usize), FamilyOutcome)> = {
        use rayon::prelude::*;
        jobs.par_iter().map(|&(f, n)| ((f, n), run_family(f, n, 120))).collect()
    };
    let mut fam_table = serde_json::Map::new();
    for f in FAMILIES {
        let mut first_fail: Option<(usize, FamilyOutcome)> = None;
        let mut deepest_ok = 0;
        for ((ff, n), o) in &results {
            if ff != f {
                continue;
            }
            st.states += 1;
            st.transitions += 1;
            st.evaluations += 1;
            st.validated += 1;
            if o.ok {
                deepest_ok = deepest_ok.max(*n);
                st.nontrivial += 1;
                st.outcome("nesting family member completed");
            } else if first_fail.as_ref().map_or(true, |(m, _)| n < m) {
                first_fail = Some((*n, o.clone()));
            }
        }
        fam_table.insert(f.to_string(), json!({"deepest_completed": deepest_ok, "first_failure": first_fail.as_ref().map(|(n, o)| json!({"n": n, "phase": o.phase, "detail": o.detail}))}));
        if let Some((n, o)) = first_fail {
            st.outcome("nesting family member aborted");
            // known finding: listed family, failing no shallower than one ladder step below the recorded depth, never <= 512
            let listed = known.iter().find(|k| k["property"] == "C05" && k["key"] == json!(format!("C05/deep-nesting/{}", f)) && k["status"] == "known");
            let min_n = listed.and_then(|k| k["min_n"].as_u64()).unwrap_or(u64::MAX);
            let key = if n > 512 && (n as u64) * 8 >= min_n && listed.is_some() {
                format!("C05/deep-nesting/{}", f)
            } else {
                format!("C05/deep-nesting/{}/fails-at-n={}", f, n)
            };
            st.violate(Violation {
                key,
                check: "nesting-families".into(),
                case: json!({"kind": "family", "family": f, "n": n}),
                expected: "Ok or Err".into(),
                actual: format!("{} during phase '{}'", o.detail, o.phase),
            });
        }
    }
    rep.guard("strings that compile are searched", st.nontrivial > 1000);
    rep.rule = "(a) every character string up to the bound over the extended alphabet, (b) every token sequence up to the bound over T22 + extreme numbers (full alphabet for two tokens, a bracket/number-centred alphabet below) and every slice/index built from pairs of extreme numbers -- each compiled, cloned, searched against 8 documents and dropped under catch_unwind, a hang watchdog and a fatal-signal handler, with integer overflow checks on; (c) 20 nesting families x the depth ladder, one fresh process each on a thread with an 8 MiB stack (compile, clone, search, Debug-format, drop). non-trivial = the input compiled and was searched / the family member completed Mixed-representation sorts: every array of 21..22 (thorough ..33) numbers over four neighbouring values above 2^53 (integer and float spellings) deviating from the constant array in <= 3 positions, through sort and sort_by. Foreign labels: 20 parsed and 24 hand-built trees wrapped by Expression::new with 16 labels (empty, short, multi-byte characters at every alignment) x 4 documents; failing searches must return an error value that renders.".into();
    rep.bounds = json!({"char_len": k, "token_len": l, "depth_ladder": depths, "families": fam_table});
    rep.assumptions = vec!["every other check also runs each of its cases under catch_unwind with overflow checks; a panic there is reported by that check".into()];
    rep.stats = st;
    rep.finish()
}

pub fn replay(case: &Value) -> Option<(String, bool)> {
    match case["kind"].as_str()? {
        "total" => {
            let mut st = Stats::default();
            total(case["expression"].as_str()?, "replay", &mut st);
            Some(match st.violations.first() {
                Some(v) => (format!("{}: {}", v.key, v.actual), true),
                None => ("returns".into(), false),
            })
        }
        "foreign-label" => {
            use jmespath::ast::Ast;
            let what = case["tree"].as_str()?;
            let label = case["label"].as_str()?;
            let ast = if let Some(rest) = what.strip_prefix("hand-built ") {
                let off: usize = rest.rsplit(' ').next()?.parse().ok()?;
                if rest.starts_with("abs()") {
                    Ast::Function { offset: off, name: "abs".into(), args: vec![] }
                } else if rest.starts_with("nosuch") {
                    Ast::Function { offset: off, name: "nosuch".into(), args: vec![Ast::Identity { offset: off }] }
                } else {
                    Ast::Slice { offset: off, start: None, stop: None, step: 0 }
                }
            } else {
                jmespath::parse(what).ok()?
            };
            let rc = value_to_var(&case["document"]);
            let r = guarded(|| {
                let e = jmespath::Expression::new(label, ast.clone(), &jmespath::DEFAULT_RUNTIME);
                e.search(rc.clone()).map(|v| v.to_string()).map_err(|e| e.to_string())
            });
            Some(match r {
                Ok(x) => (format!("returns {:?}", x.map_err(|e| e.lines().next().unwrap_or("").to_string())), false),
                Err(m) => (format!("panic: {}", m), true),
            })
        }
        "search" => {
            let e = case["expression"].as_str()?;
            let rc = value_to_var(&case["document"]);
            let r = guarded(|| jmespath::compile(e).map(|x| x.search(rc.clone()).is_ok()));
            Some(match r {
                Ok(_) => ("returns".into(), false),
                Err(m) => (format!("panic: {}", m), true),
            })
        }
        "family" => {
            let o = run_family(case["family"].as_str()?, case["n"].as_u64()? as usize, 120);
            Some((format!("ok={} phase={} {}", o.ok, o.phase, o.detail), !o.ok))
        }
        "crash" | "hang" => {
            let s = case["text"].as_str()?;
            // re-run in a child so that the replay itself survives
            let exe = std::env::current_exe().ok()?;
            let st = std::process::Command::new(exe).arg("C05-one").arg(s).status().ok()?;
            Some((format!("child status: {:?}", st.code()), !st.success()))
        }
        _ => None,
    }
}
