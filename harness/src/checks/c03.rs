//! C03 -- compile accepts exactly the JMESPath language.
use crate::engine::{par_sweep, watched, Report, Stats, Tier, Violation};
use crate::enumr::{shards, t22, t32, Alphabet};
use crate::gram::{class, recognise, Earley, Grammar, Relax, Sym};
use crate::implx::{classify, guarded, IClass};
use crate::rlex;
use crate::rparse;
use serde_json::{json, Value};

const RELAX_NAMES: [&str; 5] = [
    "expref-outside-function-argument",
    "parenthesised-function-name",
    "multi-select-list-after-projection",
    "missing-comma",
    "empty-multi-select-list",
];

fn relax_of(mask: u32) -> Relax {
    Relax {
        expref_anywhere: mask & 1 != 0,
        paren_function_name: mask & 2 != 0,
        mlist_after_projection: mask & 4 != 0,
        missing_comma: mask & 8 != 0,
        empty_mlist: mask & 16 != 0,
    }
}

lazy_static::lazy_static! {
    pub static ref G: Grammar = Grammar::new(Relax::default());
    /// every non-empty subset of the five named extra productions, ordered by
    /// size so that the smallest explaining set names the finding
    static ref RELAXED: Vec<(String, Grammar)> = {
        let mut masks: Vec<u32> = (1..32).collect();
        masks.sort_by_key(|m| (m.count_ones(), *m));
        masks.into_iter().map(|m| {
            let names: Vec<&str> = (0..5).filter(|i| m & (1 << i) != 0).map(|i| RELAX_NAMES[i]).collect();
            (names.join("+"), Grammar::new(relax_of(m)))
        }).collect()
    };
}

#[derive(Debug, Clone, PartialEq)]
pub enum ImplVerdict {
    Accept,
    RejectParse,
    RejectOther(String),
    Panic(String),
}

pub fn impl_verdict(s: &str) -> ImplVerdict {
    match guarded(|| jmespath::compile(s).map(|_| ())) {
        Ok(Ok(())) => ImplVerdict::Accept,
        Ok(Err(e)) => match classify(&e) {
            IClass::Parse => ImplVerdict::RejectParse,
            other => ImplVerdict::RejectOther(format!("{:?}", other)),
        },
        Err(m) => ImplVerdict::Panic(m),
    }
}

/// reference verdict for an arbitrary string
pub fn ref_sentence(s: &str) -> bool {
    match rlex::lex(s) {
        Err(_) => false,
        Ok(toks) => {
            let cls: Vec<Sym> = toks.iter().map(|t| class(&t.1)).collect();
            recognise(&G, &cls)
        }
    }
}

/// Which single extra production explains a false accept (known-finding key).
fn classify_false_accept(s: &str) -> String {
    if let Ok(toks) = rlex::lex(s) {
        let cls: Vec<Sym> = toks.iter().map(|t| class(&t.1)).collect();
        for (name, g) in RELAXED.iter() {
            if recognise(g, &cls) {
                return format!("C03/false-accept/{}", name);
            }
        }
        "C03/false-accept/unclassified".into()
    } else {
        "C03/false-accept/lexical".into()
    }
}

fn classify_false_reject(s: &str) -> String {
    if let Ok(toks) = rlex::lex(s) {
        if toks.iter().any(|t| t.1 == rlex::Tok::Num(i32::MIN as i64)) {
            return "C03/false-reject/number--2147483648".into();
        }
    }
    "C03/false-reject/unclassified".into()
}

/// decide one string; `is_sentence` is the reference verdict
pub fn decide(s: &str, is_sentence: bool, sub: &str, st: &mut Stats) {
    st.evaluations += 1;
    st.validated += 1;
    let v = watched(s, || impl_verdict(s));
    let cls = match (&v, is_sentence) {
        (ImplVerdict::Accept, true) => "sentence/accepted",
        (ImplVerdict::RejectParse, false) => "non-sentence/parse-error",
        (ImplVerdict::Accept, false) => "non-sentence/ACCEPTED",
        (ImplVerdict::RejectParse, true) => "sentence/REJECTED",
        (ImplVerdict::RejectOther(_), _) => "rejected-with-non-parse-error",
        (ImplVerdict::Panic(_), _) => "panic",
    };
    st.outcome(cls);
    if is_sentence {
        st.nontrivial += 1;
    }
    let bad = match (&v, is_sentence) {
        (ImplVerdict::Accept, true) | (ImplVerdict::RejectParse, false) => None,
        (ImplVerdict::Accept, false) => Some(classify_false_accept(s)),
        (ImplVerdict::RejectParse, true) => Some(classify_false_reject(s)),
        (ImplVerdict::RejectOther(_), _) => Some("C03/non-parse-error".into()),
        (ImplVerdict::Panic(_), _) => Some("C03/panic".into()),
    };
    if let Some(key) = bad {
        st.violate(Violation {
            key,
            check: sub.to_string(),
            case: json!({"kind": "compile", "expression": s}),
            expected: if is_sentence {
                "compiles (sentence of the grammar)".into()
            } else {
                "rejected with a parse error (not a sentence)".into()
            },
            actual: format!("{:?}", v),
        });
    }
}

/// (a) all token sequences of length <= max_len over `alpha`, as a DFS over
/// the prefix tree with an incremental Earley chart; the implementation is
/// run on *every* sequence, the reference only on viable prefixes.
fn token_dfs(alpha: &Alphabet, prefix: &[u8], max_len: usize, st: &mut Stats) {
    let mut e = Earley::new(&G);
    let mut text = String::new();
    let mut viable = true;
    let mut seqlen = 0usize;
    for &t in prefix {
        if seqlen > 0 {
            text.push(' ');
        }
        text.push_str(alpha.texts[t as usize]);
        seqlen += 1;
        if viable {
            viable = e.push(alpha.classes[t as usize]);
            if !viable {
                e.pop();
            }
        }
    }
    fn rec(
        e: &mut Earley,
        alpha: &Alphabet,
        text: &mut String,
        len: usize,
        viable: bool,
        max_len: usize,
        st: &mut Stats,
    ) {
        st.states += 1;
        let is_sentence = viable && e.accepts();
        if viable {
            st.count("viable_prefixes", 1);
            // model binding (ii): R-parse and the Earley recogniser agree
            let rp = rparse::parse(text).is_ok();
            if rp != is_sentence {
                st.count("MODEL_DISAGREEMENT", 1);
                st.sample(|| json!({"MODEL_DISAGREEMENT": text.clone(), "earley": is_sentence, "rparse": rp}));
            }
        }
        if len > 0 {
            decide(text, is_sentence, "token-sequences", st);
            if is_sentence {
                st.sample(|| json!({"sentence": text.clone()}));
            }
        }
        if len >= max_len {
            return;
        }
        for t in 0..alpha.len() {
            st.transitions += 1;
            let keep = text.len();
            if len > 0 {
                text.push(' ');
            }
            text.push_str(alpha.texts[t]);
            if viable {
                let v = e.push(alpha.classes[t]);
                rec(e, alpha, text, len + 1, v, max_len, st);
                e.pop();
            } else {
                rec(e, alpha, text, len + 1, false, max_len, st);
            }
            text.truncate(keep);
        }
    }
    rec(&mut e, alpha, &mut text, seqlen, viable, max_len, st);
}

/// (b) deviation-bounded: every viable prefix of <= lv tokens followed by
/// <= k arbitrary tokens (beyond the fully enumerated length `done_len`)
fn deviation_dfs(alpha: &Alphabet, prefix: &[u8], lv: usize, k: usize, done_len: usize, st: &mut Stats) {
    let mut e = Earley::new(&G);
    let mut text = String::new();
    let mut len = 0;
    for &t in prefix {
        if len > 0 {
            text.push(' ');
        }
        text.push_str(alpha.texts[t as usize]);
        len += 1;
        if !e.push(alpha.classes[t as usize]) {
            return;
        }
    }
    // walk viable prefixes up to lv; at each, try k arbitrary tokens
    fn tail(
        e: &mut Earley,
        alpha: &Alphabet,
        text: &mut String,
        len: usize,
        viable: bool,
        left: usize,
        done_len: usize,
        st: &mut Stats,
    ) {
        // called after a token was appended
        st.states += 1;
        if len > done_len {
            let is_sentence = viable && e.accepts();
            decide(text, is_sentence, "deviation-bounded", st);
        }
        if left == 0 {
            return;
        }
        for t in 0..alpha.len() {
            st.transitions += 1;
            let keep = text.len();
            text.push(' ');
            text.push_str(alpha.texts[t]);
            if viable {
                let v = e.push(alpha.classes[t]);
                tail(e, alpha, text, len + 1, v, left - 1, done_len, st);
                e.pop();
            } else {
                tail(e, alpha, text, len + 1, false, left - 1, done_len, st);
            }
            text.truncate(keep);
        }
    }
    fn walk(
        e: &mut Earley,
        alpha: &Alphabet,
        text: &mut String,
        len: usize,
        lv: usize,
        k: usize,
        done_len: usize,
        st: &mut Stats,
    ) {
        // here: text is a viable prefix of `len` tokens
        if len + k > done_len {
            // explore k arbitrary tokens from this viable prefix
            for t in 0..alpha.len() {
                st.transitions += 1;
                let keep = text.len();
                if len > 0 {
                    text.push(' ');
                }
                text.push_str(alpha.texts[t]);
                let v = e.push(alpha.classes[t]);
                tail(e, alpha, text, len + 1, v, k - 1, done_len, st);
                e.pop();
                text.truncate(keep);
            }
        }
        if len >= lv {
            return;
        }
        for t in 0..alpha.len() {
            let keep = text.len();
            if len > 0 {
                text.push(' ');
            }
            text.push_str(alpha.texts[t]);
            if e.push(alpha.classes[t]) {
                walk(e, alpha, text, len + 1, lv, k, done_len, st);
            }
            e.pop();
            text.truncate(keep);
        }
    }
    walk(&mut e, alpha, &mut text, len, lv, k, done_len, st);
}

pub const SIGMA: &[char] = &[
    'a', '1', '0', '-', '.', '*', '[', ']', '?', '|', '&', '!', '=', '<', '>', '@', '(', ')', '{', '}',
    ',', ':', '"', '\'', '`', '\\', ' ', 'é', '\n', '\u{1}',
];

/// (c) all character strings of length <= k over `sigma` starting with `prefix`
pub fn char_dfs(sigma: &[char], prefix: &str, plen: usize, k: usize, st: &mut Stats, f: &mut dyn FnMut(&str, &mut Stats)) {
    fn rec(sigma: &[char], s: &mut String, len: usize, k: usize, st: &mut Stats, f: &mut dyn FnMut(&str, &mut Stats)) {
        st.states += 1;
        f(s, st);
        if len >= k {
            return;
        }
        for &c in sigma {
            st.transitions += 1;
            s.push(c);
            rec(sigma, s, len + 1, k, st, f);
            s.pop();
        }
    }
    let mut s = prefix.to_string();
    rec(sigma, &mut s, plen, k, st, f);
}

pub fn char_shards(sigma: &[char], n: usize) -> Vec<String> {
    let mut out = vec![String::new()];
    for _ in 0..n {
        let mut next = Vec::new();
        for p in &out {
            for &c in sigma {
                let mut q = p.clone();
                q.push(c);
                next.push(q);
            }
        }
        out = next;
    }
    out
}

pub fn run(tier: Tier) -> i32 {
    let mut rep = Report::new("C03", tier);
    crate::engine::start_watchdog("C03", std::time::Duration::from_secs(60));
    let a22 = t22();
    let l = tier.pick(6, 7);
    // (a)
    let mut st = Stats::default();
    // sequences shorter than the shard prefix length
    let mut st0 = Stats::default();
    token_dfs(&a22, &[], 2, &mut st0);
    st = st.merge(st0);
    let sh = shards(a22.len(), 2);
    // each shard root (length 2) was already decided above; count only deeper nodes
    let sa = par_sweep(sh, |p, st| {
        let mut inner = Stats::default();
        token_dfs(&a22, p, l, &mut inner);
        // remove the double-counted shard root
        inner.states -= 1;
        inner.evaluations -= 1;
        inner.validated -= 1;
        *st = std::mem::take(st).merge(inner);
    });
    st = st.merge(sa);
    // (d) T32 + extreme numbers, length <= 4
    let mut texts = t32().texts.clone();
    texts.extend_from_slice(&["2147483647", "-2147483647", "2147483648", "-2147483648", "-2147483649", "1073741824"]);
    // numbers that do not lex cannot be alphabet tokens for the Earley side; handle by string
    let ext: Vec<&'static str> = texts;
    let dlen = tier.pick(3, 4);
    let ext_shards: Vec<usize> = (0..ext.len()).collect();
    let sd = par_sweep(ext_shards, |&first, st| {
        let mut seq = vec![first];
        loop {
            let s: Vec<&str> = seq.iter().map(|&i| ext[i]).collect();
            let text = s.join(" ");
            st.states += 1;
            st.transitions += 1;
            decide(&text, ref_sentence(&text), "class-equivalence+i32-range", st);
            // next sequence with the same first token, length <= dlen (odometer)
            if seq.len() < dlen {
                seq.push(0);
                continue;
            }
            loop {
                if seq.len() == 1 {
                    return;
                }
                let lastv = seq.pop().unwrap();
                if lastv + 1 < ext.len() {
                    seq.push(lastv + 1);
                    break;
                }
            }
        }
    });
    st = st.merge(sd);
    // numerals: zero padding, many digits, the i32 edges (the grammar is number = ["-"] 1*DIGIT)
    {
        let mut nums: Vec<String> = Vec::new();
        for pad in [0usize, 1, 2, 9, 10, 11, 12, 20, 40] {
            for body in ["0", "1", "2", "9", "10", "2147483647", "2147483648", "2147483646", "4294967296", "99999999999"] {
                nums.push(format!("{}{}", "0".repeat(pad), body));
                nums.push(format!("-{}{}", "0".repeat(pad), body));
            }
        }
        nums.push("-2147483648".into());
        nums.push("-2147483649".into());
        // code points that Unicode classes as numeric but that are not DIGIT: superscripts, Arabic-Indic, full-width,
        // Roman numerals, fractions, mathematical digits, Bengali -- alone, after '-', before and after ASCII digits
        for u in ["\u{b2}", "\u{b9}", "\u{663}", "\u{6f3}", "\u{ff11}", "\u{216b}", "\u{bd}", "\u{1d7d3}", "\u{9e9}", "\u{2460}", "\u{3007}"] {
            for form in ["{u}", "-{u}", "1{u}", "-1{u}", "{u}1", "-{u}1", "-{u}{u}", "0{u}"] {
                nums.push(form.replace("{u}", u));
            }
        }
        for n in &nums {
            for form in [format!("[{}]", n), format!("a[{}]", n), format!("a[{}:{}]", n, n), format!("a[::{}]", n), format!("a[{}:]", n), format!("[{}:{}:{}]", n, n, n)] {
                st.states += 1;
                st.transitions += 1;
                decide(&form, ref_sentence(&form), "numerals", &mut st);
            }
        }
    }
    // notable code points (byte order mark, no-break / zero-width / ideographic spaces, line and paragraph
    // separators, NEL, VT, FF, soft hyphen, replacement character, NUL, US, DEL) inserted at every position of a few
    // sentences -- before, between and inside tokens, inside each quoted form
    {
        let points = ['\u{feff}', '\u{a0}', '\u{200b}', '\u{2028}', '\u{2029}', '\u{85}', '\u{b}', '\u{c}', '\u{ad}', '\u{180e}', '\u{3000}', '\u{2000}', '\u{200e}', '\u{fffd}', '\u{0}', '\u{1f}', '\u{7f}', '\u{1680}', '\u{205f}', '\u{2060}', '\u{fffe}'];
        let sentences = ["a", "a.b", "a[0]", "a[1:2]", "`1`", "`true`", "`null`", "`[1, 2]`", "`{\"a\": 1}`", "`\"s\"`", "'r'", "\"q\"", "a || b", "length(a)", "a[?b == `1`]", "{a: b}", "[a, b]", "&a", "*", "@", "!a", "a | b"];
        for sent in sentences {
            let idx: Vec<usize> = sent.char_indices().map(|(i, _)| i).chain(std::iter::once(sent.len())).collect();
            for &i in &idx {
                for c in points {
                    let mut t = String::with_capacity(sent.len() + 4);
                    t.push_str(&sent[..i]);
                    t.push(c);
                    t.push_str(&sent[i..]);
                    st.states += 1;
                    st.transitions += 1;
                    decide(&t, ref_sentence(&t), "notable-code-points", &mut st);
                }
            }
        }
    }
    // nesting ladder: sentences of every nesting family must compile at any depth the stack allows
    {
        let h = std::thread::Builder::new()
            .stack_size(1 << 30)
            .spawn(move || {
                let mut s = Stats::default();
                for f in crate::checks::c05::FAMILIES {
                    if *f == "literal-json" || f.starts_with("document") {
                        continue; // JSON inside a literal is bounded by the JSON parser's own depth limit
                    }
                    for n in [2usize, 8, 64, 127, 128, 129, 255, 256, 257, 300, 512, 1000, 1024, 1025, 2048, 4096] {
                        let (src, _) = crate::checks::c05::family_expr(f, n);
                        s.states += 1;
                        s.transitions += 1;
                        s.evaluations += 1;
                        s.validated += 1;
                        s.nontrivial += 1;
                        let ok = guarded(|| jmespath::compile(&src).map(|e| drop(e)).map_err(|e| format!("{:?}", e.reason)));
                        match ok {
                            Ok(Ok(())) => s.outcome("nested sentence accepted"),
                            other => s.violate(Violation {
                                key: format!("C03/false-reject/nesting/{}", f),
                                check: "nesting-ladder".into(),
                                case: json!({"kind": "nesting", "family": f, "n": n}),
                                expected: "compiles (a sentence at any nesting depth)".into(),
                                actual: crate::engine::trunc(&format!("{:?}", other), 200),
                            }),
                        }
                    }
                }
                s
            })
            .unwrap();
        st = st.merge(h.join().unwrap());
    }
    // (c) character strings
    let k = tier.pick(5, 6);
    let mut stc0 = Stats::default();
    char_dfs(SIGMA, "", 0, 1, &mut stc0, &mut |s, st| decide(s, ref_sentence(s), "character-strings", st));
    st = st.merge(stc0);
    let csh = char_shards(SIGMA, 2);
    let sc = par_sweep(csh, |p, st| {
        char_dfs(SIGMA, p, 2, k, st, &mut |s, st| {
            decide(s, ref_sentence(s), "character-strings", st)
        });
    });
    st = st.merge(sc);
    // (b) deviation-bounded extension beyond the fully enumerated length
    let (lv, kk) = tier.pick((5, 2), (7, 2));
    let sb = par_sweep(shards(a22.len(), 2), |p, st| {
        deviation_dfs(&a22, p, lv, kk, l, st);
    });
    st = st.merge(sb);
    if tier == Tier::Thorough {
        let sb3 = par_sweep(shards(a22.len(), 2), |p, st| {
            deviation_dfs(&a22, p, 5, 3, l, st);
        });
        st = st.merge(sb3);
    }

    let dis = st.counters.get("MODEL_DISAGREEMENT").cloned().unwrap_or(0);
    rep.guard("reference parser and Earley recogniser agree on every viable prefix", dis == 0);
    rep.guard(
        "sentences and non-sentences both occur",
        st.outcomes.get("sentence/accepted").cloned().unwrap_or(0) > 1000
            && st.outcomes.get("non-sentence/parse-error").cloned().unwrap_or(0) > 1000,
    );
    rep.rule = "every token sequence over T22 up to the length bound (prefix-tree DFS, incremental Earley chart), every character string over Sigma28 up to its bound, every sequence over T32+extreme numbers up to its bound, and every viable prefix followed by k arbitrary tokens; each rendered string is compiled by the implementation and decided by R-lex + Earley membership. non-trivial = the string is a sentence of the grammar Numeral family: zero padding, many digits, the i32 edges and non-ASCII numeric code points (superscript, Arabic-Indic, full-width, Roman, fraction, mathematical, circled) alone / after '-' / next to ASCII digits, in six bracket forms. Notable code points (byte order mark, no-break / zero-width / ideographic spaces, line and paragraph separators, NEL, VT, FF, soft hyphen, U+FFFD, NUL, US, DEL, ...: 21) inserted at every position of 22 sentences.".into();
    rep.bounds = json!({"token_len": l, "char_len": k, "class_equiv_len": dlen, "deviation": {"viable_prefix_len": lv, "extra_tokens": kk, "thorough_extra": "(5,3)"}, "alphabet_T22": a22.texts, "sigma": SIGMA.iter().collect::<String>()});
    rep.assumptions = vec![
        "grammar = published ABNF at token level (DESIGN 3.1); lexical rules as in the C03 statement".into(),
        "serde_json's text parser decides validity of JSON inside backtick literals (trusted base)".into(),
    ];
    rep.stats = st;
    rep.finish()
}

pub fn replay(case: &Value) -> Option<(String, bool)> {
    if case["kind"] == json!("nesting") {
        let f = case["family"].as_str()?.to_string();
        let n = case["n"].as_u64()? as usize;
        let h = std::thread::Builder::new().stack_size(1 << 30).spawn(move || {
            let (src, _) = crate::checks::c05::family_expr(&f, n);
            guarded(|| jmespath::compile(&src).is_ok())
        }).ok()?;
        let r = h.join().ok()?;
        return Some((format!("compiles: {:?}", r), r != Ok(true)));
    }
    let s = case["expression"].as_str()?;
    let is_sentence = ref_sentence(s);
    let v = impl_verdict(s);
    let ok = matches!((&v, is_sentence), (ImplVerdict::Accept, true) | (ImplVerdict::RejectParse, false));
    Some((format!("reference: sentence={} implementation: {:?}", is_sentence, v), !ok))
}
