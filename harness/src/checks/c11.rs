//! C11 -- evaluation is compositional (implementation-only oracle).
use crate::checks::c01::{e0, e1};
use crate::engine::{par_sweep, Report, Stats, Tier, Violation};
use crate::implx::{guarded, value_to_var, var_to_value};
use crate::reval::truthy;
use jmespath::ast::Ast;
use jmespath::{Expression, DEFAULT_RUNTIME};
use serde_json::{json, Value};

/// outcome of a search in the Value domain: Ok(value) or Err(reason text)
type Res = Result<Value, String>;

fn search(e: &Expression<'_>, d: &Value) -> Res {
    match guarded(|| e.search(value_to_var(d))) {
        Ok(Ok(v)) => Ok(var_to_value(&v)),
        Ok(Err(e)) => Err(format!("{:?}", e.reason)),
        Err(m) => Err(format!("PANIC {}", m)),
    }
}

fn compile(s: &str) -> Option<Expression<'static>> {
    match guarded(|| jmespath::compile(s)) {
        Ok(Ok(e)) => Some(e),
        _ => None,
    }
}

fn project(base: Res, elem: &dyn Fn(&Value) -> Res) -> Res {
    match base? {
        Value::Array(xs) => {
            let mut out = Vec::new();
            for x in &xs {
                let v = elem(x)?;
                if !v.is_null() {
                    out.push(v);
                }
            }
            Ok(Value::Array(out))
        }
        _ => Ok(Value::Null),
    }
}

pub const LAWS: &[&str] = &["pipe", "list-wildcard", "flatten", "slice", "filter", "object-wildcard", "multi-list", "multi-hash", "not", "and", "or", "list-wildcard-chain", "slice-chain", "flatten-chain", "list-wildcard-call", "slice-call", "flatten-call", "filter-call", "object-wildcard-call", "bare-slice", "bare-reverse-slice", "bare-list-wildcard"];

/// expected value of the compound from the parts' individual results
fn expected(law: &str, l: &Expression<'_>, r: &Expression<'_>, r_in_list: &Expression<'_>, r_chain: &Expression<'_>, r_call: &Expression<'_>, d: &Value) -> Res {
    match law {
        "pipe" => {
            let lv = search(l, d)?;
            search(r, &lv)
        }
        "list-wildcard" => project(search(l, d), &|x| search(r_in_list, x)),
        "flatten" => {
            let base = search(l, d).map(|v| match v {
                Value::Array(xs) => {
                    let mut out = Vec::new();
                    for x in xs {
                        match x {
                            Value::Array(inner) => out.extend(inner),
                            o => out.push(o),
                        }
                    }
                    Value::Array(out)
                }
                _ => Value::Null,
            });
            project(base, &|x| search(r_in_list, x))
        }
        // a projection with nothing after it still drops the nulls of its subject (identity right-hand side)
        "bare-slice" => {
            let base = search(l, d).map(|v| match v {
                Value::Array(xs) => Value::Array(xs.into_iter().skip(1).collect()),
                _ => Value::Null,
            });
            project(base, &|x| Ok(x.clone()))
        }
        "bare-reverse-slice" => {
            let base = search(l, d).map(|v| match v {
                Value::Array(xs) => Value::Array(xs.into_iter().rev().collect()),
                _ => Value::Null,
            });
            project(base, &|x| Ok(x.clone()))
        }
        "bare-list-wildcard" => project(search(l, d), &|x| Ok(x.clone())),
        "slice" => {
            let base = search(l, d).map(|v| match v {
                Value::Array(xs) => Value::Array(xs.into_iter().skip(1).collect()),
                _ => Value::Null,
            });
            project(base, &|x| search(r_in_list, x))
        }
        "object-wildcard" => {
            let base = search(l, d).map(|v| match v {
                Value::Object(m) => Value::Array(m.values().cloned().collect()),
                _ => Value::Null,
            });
            project(base, &|x| search(r_in_list, x))
        }
        "filter" => match search(l, d)? {
            Value::Array(xs) => {
                let mut out = Vec::new();
                for x in xs {
                    if truthy(&search(r, &x)?) && !x.is_null() {
                        out.push(x);
                    }
                }
                Ok(Value::Array(out))
            }
            _ => Ok(Value::Null),
        },
        // right-hand sides that continue with a field and a filter: applied per element
        "list-wildcard-chain" => project(search(l, d), &|x| search(r_chain, x)),
        "slice-chain" => {
            let base = search(l, d).map(|v| match v {
                Value::Array(xs) => Value::Array(xs.into_iter().skip(1).collect()),
                _ => Value::Null,
            });
            project(base, &|x| search(r_chain, x))
        }
        "flatten-chain" => {
            let base = search(l, d).map(|v| match v {
                Value::Array(xs) => {
                    let mut out = Vec::new();
                    for x in xs {
                        match x {
                            Value::Array(inner) => out.extend(inner),
                            o => out.push(o),
                        }
                    }
                    Value::Array(out)
                }
                _ => Value::Null,
            });
            project(base, &|x| search(r_chain, x))
        }
        "filter-chain" => match search(l, d)? {
            Value::Array(xs) => {
                let mut out = Vec::new();
                for x in xs {
                    if truthy(&search(r, &x)?) {
                        let v = search(r_chain, &x)?;
                        if !v.is_null() {
                            out.push(v);
                        }
                    }
                }
                Ok(Value::Array(out))
            }
            _ => Ok(Value::Null),
        },
        // right-hand side is a call that turns a null element into a non-null result:
        // every element must be visited, including null ones
        "list-wildcard-call" => project(search(l, d), &|x| search(r_call, x)),
        "slice-call" => {
            let base = search(l, d).map(|v| match v {
                Value::Array(xs) => Value::Array(xs.into_iter().skip(1).collect()),
                _ => Value::Null,
            });
            project(base, &|x| search(r_call, x))
        }
        "flatten-call" => {
            let base = search(l, d).map(|v| match v {
                Value::Array(xs) => {
                    let mut out = Vec::new();
                    for x in xs {
                        match x {
                            Value::Array(inner) => out.extend(inner),
                            o => out.push(o),
                        }
                    }
                    Value::Array(out)
                }
                _ => Value::Null,
            });
            project(base, &|x| search(r_call, x))
        }
        "object-wildcard-call" => {
            let base = search(l, d).map(|v| match v {
                Value::Object(m) => Value::Array(m.values().cloned().collect()),
                _ => Value::Null,
            });
            project(base, &|x| search(r_call, x))
        }
        "filter-call" => match search(l, d)? {
            Value::Array(xs) => {
                let mut out = Vec::new();
                for x in xs {
                    if truthy(&search(r, &x)?) {
                        let v = search(r_call, &x)?;
                        if !v.is_null() {
                            out.push(v);
                        }
                    }
                }
                Ok(Value::Array(out))
            }
            _ => Ok(Value::Null),
        },
        "multi-list" => {
            if d.is_null() {
                return Ok(Value::Null);
            }
            Ok(json!([search(l, d)?, search(r, d)?]))
        }
        "multi-hash" => {
            if d.is_null() {
                return Ok(Value::Null);
            }
            Ok(json!({"a": search(l, d)?, "b": search(r, d)?}))
        }
        "not" => Ok(Value::Bool(!truthy(&search(l, d)?))),
        "and" => {
            let lv = search(l, d)?;
            if truthy(&lv) {
                search(r, d)
            } else {
                Ok(lv)
            }
        }
        "or" => {
            let lv = search(l, d)?;
            if truthy(&lv) {
                Ok(lv)
            } else {
                search(r, d)
            }
        }
        _ => unreachable!(),
    }
}

fn compound(law: &str, l: &str, r: &str) -> String {
    match law {
        "pipe" => format!("({}) | ({})", l, r),
        "list-wildcard" => format!("({})[*].[{}, {}]", l, r, r),
        "flatten" => format!("({})[].[{}, {}]", l, r, r),
        "slice" => format!("({})[1:].[{}, {}]", l, r, r),
        "bare-slice" => format!("({})[1:]", l),
        "bare-reverse-slice" => format!("({})[::-1]", l),
        "bare-list-wildcard" => format!("({})[*]", l),
        "filter" => format!("({})[?{}]", l, r),
        "object-wildcard" => format!("({}).*.[{}, {}]", l, r, r),
        "multi-list" => format!("[{}, {}]", l, r),
        "multi-hash" => format!("{{a: {}, b: {}}}", l, r),
        "not" => format!("!({})", l),
        "and" => format!("({}) && ({})", l, r),
        "or" => format!("({}) || ({})", l, r),
        "list-wildcard-chain" => format!("({})[*].a[?{}]", l, r),
        "slice-chain" => format!("({})[1:].a[?{}]", l, r),
        "flatten-chain" => format!("({})[].a[?{}]", l, r),
        "list-wildcard-call" => format!("({})[*].to_array({})", l, r),
        "slice-call" => format!("({})[1:].to_array({})", l, r),
        "flatten-call" => format!("({})[].to_array({})", l, r),
        "object-wildcard-call" => format!("({}).*.to_array({})", l, r),
        "filter-call" => format!("({})[?{}].to_array({})", l, r, r),
        "filter-chain" => format!("({})[?{}].a[?{}]", l, r, r),
        _ => unreachable!(),
    }
}

/// the same compound built at tree level through the public constructor
fn compound_ast(law: &str, l: &Ast, r: &Ast) -> Option<Ast> {
    let b = |a: &Ast| Box::new(a.clone());
    let ml = |a: &Ast| Ast::MultiList { offset: 0, elements: vec![a.clone(), a.clone()] };
    Some(match law {
        "pipe" => Ast::Subexpr { offset: 0, lhs: b(l), rhs: b(r) },
        "list-wildcard" => Ast::Projection { offset: 0, lhs: b(l), rhs: Box::new(ml(r)) },
        "flatten" => Ast::Projection { offset: 0, lhs: Box::new(Ast::Flatten { offset: 0, node: b(l) }), rhs: Box::new(ml(r)) },
        "object-wildcard" => Ast::Projection { offset: 0, lhs: Box::new(Ast::ObjectValues { offset: 0, node: b(l) }), rhs: Box::new(ml(r)) },
        "multi-list" => Ast::MultiList { offset: 0, elements: vec![l.clone(), r.clone()] },
        "not" => Ast::Not { offset: 0, node: b(l) },
        "and" => Ast::And { offset: 0, lhs: b(l), rhs: b(r) },
        "or" => Ast::Or { offset: 0, lhs: b(l), rhs: b(r) },
        _ => return None,
    })
}

fn same(a: &Res, b: &Res) -> bool {
    match (a, b) {
        (Ok(x), Ok(y)) => x == y,
        // errors: same class of reason (positions differ between a part and the compound)
        (Err(x), Err(y)) => x.split('(').next() == y.split('(').next() || x == y,
        _ => false,
    }
}

pub fn check_pair(l: &str, r: &str, docs: &[Value], st: &mut Stats) {
    let (le, re) = match (compile(l), compile(r)) {
        (Some(a), Some(b)) => (a, b),
        _ => {
            st.count("skipped_part_does_not_compile", 1);
            return;
        }
    };
    let rl = match compile(&format!("[{}, {}]", r, r)) {
        Some(e) => e,
        None => return,
    };
    let rc = match compile(&format!("a[?{}]", r)) {
        Some(e) => e,
        None => return,
    };
    let rcall = match compile(&format!("to_array({})", r)) {
        Some(e) => e,
        None => return,
    };
    st.states += 1;
    for law in LAWS {
        let src = compound(law, l, r);
        let ce = match compile(&src) {
            Some(e) => e,
            None => {
                st.violate(Violation {
                    key: format!("C11/{}/compound-does-not-compile", law),
                    check: "laws".into(),
                    case: json!({"kind": "law", "law": law, "l": l, "r": r, "document": null}),
                    expected: "compiles".into(),
                    actual: src,
                });
                continue;
            }
        };
        let tree = compound_ast(law, le.as_ast(), re.as_ast()).map(|a| Expression::new(src.clone(), a, &DEFAULT_RUNTIME));
        for d in docs {
            st.transitions += 1;
            st.evaluations += 1;
            st.validated += 1;
            let want = expected(law, &le, &re, &rl, &rc, &rcall, d);
            let got = search(&ce, d);
            if !same(&want, &got) {
                st.outcome("LAW-BROKEN");
                st.violate(Violation {
                    key: format!("C11/{}", law),
                    check: "laws".into(),
                    case: json!({"kind": "law", "law": law, "l": l, "r": r, "document": d}),
                    expected: format!("{:?}", want),
                    actual: format!("{:?} from {}", got, src),
                });
                continue;
            }
            if let Some(t) = &tree {
                let got2 = search(t, d);
                if !same(&want, &got2) {
                    st.violate(Violation {
                        key: format!("C11/{}/tree-level", law),
                        check: "laws".into(),
                        case: json!({"kind": "law", "law": law, "l": l, "r": r, "document": d}),
                        expected: format!("{:?}", want),
                        actual: format!("{:?} from the tree built with Expression::new", got2),
                    });
                    continue;
                }
            }
            match &got {
                Ok(Value::Null) => st.outcome("null"),
                Ok(_) => {
                    st.nontrivial += 1;
                    st.outcome("value")
                }
                Err(_) => st.outcome("error"),
            }
        }
    }
    if st.states % 2003 == 1 {
        st.sample(|| json!({"l": l, "r": r, "laws": LAWS.len(), "documents": docs.len()}));
    }
}

pub fn docs(tier: Tier) -> Vec<Value> {
    let mut v = vec![
        json!(null),
        json!([[1, 2], [3], null, 4]),
        json!([{"a": 1, "b": [1]}, {"a": null, "b": []}, {"b": [2, 3]}]),
        json!({"a": [1, 0, null, [2]], "b": {"a": 1, "b": [3]}}),
        json!({"a": {"a": [1, 2], "b": {"a": "x"}}, "b": [{"a": [1]}, {"a": []}]}),
        json!({"a": [{"a": 1, "b": 2}, {"a": 0, "b": 0}], "b": "a"}),
        json!(["a", "", 0, false, {}, []]),
        json!({"a": "a", "b": ""}),
        json!([]),
        json!({}),
        json!(""),
        json!(false),
        json!(0),
        json!({"a": " ", "b": ["\t", "\u{a0}", ""]}),
        json!([{"a": [1, null]}, {"b": 1}, {"a": null}, {"a": [[2], null, {"a": 3}]}]),
        // a null (or an element that yields null under every continuation) *before* the elements that yield
        // something: a shortcut that stops at the first match differs from the staged result only here
        json!([null, 1, [2], {"a": 3}]),
        json!({"a": [null, false, {"b": 1}, {"a": 2, "b": 2}], "b": [null]}),
    ];
    if tier == Tier::Thorough {
        v.extend(crate::enumr::pool_quick());
        v = crate::enumr::dedup(v);
    }
    v
}

pub fn run(tier: Tier) -> i32 {
    let mut rep = Report::new("C11", tier);
    crate::engine::start_watchdog("C11", std::time::Duration::from_secs(120));
    let e1v = e1();
    let e0v: Vec<String> = e0().iter().map(|s| s.to_string()).collect();
    let dv = docs(tier);
    let idx: Vec<usize> = (0..e1v.len()).collect();
    let step = tier.pick(0usize, 1usize);
    let st = par_sweep(idx, |&i, st| {
        let x = &e1v[i];
        if step == 0 {
            for y in &e0v {
                check_pair(x, y, &dv, st);
                check_pair(y, x, &dv, st);
            }
            // a diagonal through E1 x E1
            for k in [1usize, 7, 31, 101, 401, 907] {
                check_pair(x, &e1v[(i + k) % e1v.len()], &dv, st);
            }
        } else {
            // thorough: the quick families on the extended document pool, and the full product E1 x E1 on the
            // first eight documents (the full product on the extended pool would be 10^10 evaluations)
            for y in &e0v {
                check_pair(x, y, &dv, st);
                check_pair(y, x, &dv, st);
            }
            for k in [1usize, 7, 31, 101, 401, 907] {
                check_pair(x, &e1v[(i + k) % e1v.len()], &dv, st);
            }
            for y in &e1v {
                check_pair(x, y, &dv[..8.min(dv.len())], st);
            }
        }
    });
    // parts that *create* values inside the expression which the document pool does not contain: integers beyond
    // i64, the i64 minimum, huge and tiny doubles, negative zero, non-ASCII text -- staged evaluation hands them from
    // one search call to the next
    let mut st = st;
    {
        let extreme = [
            "`18446744073709551615`", "`[9223372036854775808, 1]`", "`-9223372036854775808`", "`{\"a\": 18446744073709551615, \"b\": [9007199254740993]}`",
            "`1e308`", "`5e-324`", "`-0.0`", "`[1, 1.0]`", "`\"\\u00e9\\ud83d\\ude00\"`", "'\u{e9}\u{1F600}'", "`[[18446744073709551615], null, [-1]]`",
        ];
        let mut rs: Vec<String> = e0v.clone();
        rs.extend(["[0] > [1]", "a", "@[0]", "[@, @]", "to_string(@)", "[*]", "*", "[]", "a > b", "@ == @"].iter().map(|s| s.to_string()));
        let mut s2 = Stats::default();
        for l in extreme {
            for r in &rs {
                check_pair(l, r, &dv, &mut s2);
                check_pair(r, l, &dv[..3.min(dv.len())], &mut s2);
            }
        }
        st = st.merge(s2);
    }
    // documents whose containers have a medium size (around 16, 32, 64 elements / members): leaves and unary
    // productions on either side (a shortcut that engages at a capacity boundary differs from the staged result)
    {
        let msizes: Vec<usize> = tier.pick(vec![16, 17, 33], vec![15, 16, 17, 31, 32, 33, 63, 64, 65, 129]);
        let md = crate::enumr::medium_docs(&msizes);
        let n_unary = e0v.len() + crate::checks::c01::UNARY.len() * e0v.len();
        let sm = par_sweep((0..n_unary).collect::<Vec<usize>>(), |&i, st| {
            let x = &e1v[i];
            for y in &e0v {
                check_pair(x, y, &md, st);
                if i >= e0v.len() {
                    check_pair(y, x, &md, st);
                }
            }
        });
        st.count("medium_size_document_pairs", sm.states);
        st = st.merge(sm);
    }
    // predicates two and three productions deep as the right-hand part (filter and chain laws take R as the
    // predicate, not / and / or take it as an operand), a few subjects on the left
    {
        let preds = crate::checks::c01::predicates();
        let ls = ["@", "a", "[*]", "*", "[a, b]", "[]"];
        let sp = par_sweep(preds.chunks(32).map(|c| c.to_vec()).collect::<Vec<_>>(), |chunk: &Vec<String>, st| {
            for p in chunk {
                for l in ls {
                    check_pair(l, p, &dv, st);
                }
                check_pair(p, "a", &dv, st);
            }
        });
        st.count("predicate_pairs", sp.states);
        st = st.merge(sp);
    }
    rep.guard("non-null compound results occur", st.nontrivial > 1000);
    rep.rule = "all pairs (L, R) from E1 x E0, E0 x E1 and six diagonals of E1 x E1 (thorough: all of E1 x E1) x 11 laws x the document pool: the compound expression (text, and where expressible the tree built through Expression::new) against the combination of the parts' individual search results, computed with separate search calls of the implementation. states = pairs; transitions = (pair, law, document); non-trivial = non-null compound result Plus 11 parts that create values inside the expression (integers beyond i64, i64::MIN, 1e308, 5e-324, -0.0, 1 vs 1.0, non-ASCII strings) x 26 other parts, both orders.".into();
    rep.bounds = json!({"medium_document_sizes": tier.pick(vec![16, 17, 33], vec![15, 16, 17, 31, 32, 33, 63, 64, 65, 129]), "medium_document_pairs": "(E0 + unary E1) x E0, both orders", "E1": e1v.len(), "E0": e0v.len(), "laws": LAWS, "documents": dv.len(), "full_product": if step == 1 { "E1 x E1 on the first 8 documents; E1 x E0, E0 x E1 and six diagonals on all documents" } else { "no" }});
    rep.assumptions = vec!["truthiness table of the specification is applied by the harness to the parts' results".into()];
    rep.stats = st;
    rep.finish()
}

pub fn replay(case: &Value) -> Option<(String, bool)> {
    let mut st = Stats::default();
    let docs = if case["document"].is_null() { docs(Tier::Quick) } else { vec![case["document"].clone()] };
    check_pair(case["l"].as_str()?, case["r"].as_str()?, &docs, &mut st);
    Some(match st.violations.first() {
        Some(v) => (format!("{}: expected {} actual {}", v.key, v.expected, v.actual), true),
        None => ("laws hold".into(), false),
    })
}
