//! C02 -- every builtin computes the specified value.
use crate::checks::c06::check_call_expr_p;
use crate::engine::{par_sweep, Report, Stats, Tier, Violation};
use crate::implx::{guarded, value_to_var, var_to_value};
use crate::oracle::{compare, Pool};
use crate::rparse;
use jmespath::{Context, Rcvar, Runtime};
use serde_json::{json, Value};
use std::cell::RefCell;

fn seqs(alpha: &[Value], maxlen: usize) -> Vec<Vec<Value>> {
    let mut out: Vec<Vec<Value>> = vec![vec![]];
    let mut layer: Vec<Vec<Value>> = vec![vec![]];
    for _ in 0..maxlen {
        let mut next = Vec::new();
        for s in &layer {
            for a in alpha {
                let mut t = s.clone();
                t.push(a.clone());
                next.push(t);
            }
        }
        out.extend(next.iter().cloned());
        layer = next;
    }
    out
}

fn strings(alpha: &[char], maxlen: usize) -> Vec<String> {
    let mut out = vec![String::new()];
    let mut layer = vec![String::new()];
    for _ in 0..maxlen {
        let mut next = Vec::new();
        for s in &layer {
            for c in alpha {
                let mut t = s.clone();
                t.push(*c);
                next.push(t);
            }
        }
        out.extend(next.iter().cloned());
        layer = next;
    }
    out
}

pub fn numbers() -> Vec<Value> {
    vec![json!(0), json!(1), json!(-1), json!(1.5), json!(1.0), json!(2)]
}
pub fn strs() -> Vec<Value> {
    vec![json!(""), json!("a"), json!("b"), json!("é"), json!("\u{FF61}"), json!("😀")]
}

/// One call, at top level (permissive R-fn oracle) and nested (general oracle).
fn call(src: &str, d: &Value, st: &mut Stats) {
    check_call_expr_p("C02", src, d, "builtin-values", st);
    // nested: as an argument of another call, inside a projection, behind a pipe
    for n in [
        format!("[{}]", src),
        format!("@ | {}", src),
        format!("not_null({})", src),
        format!("[@][*].{}", src),
        format!("{{r: {}}}.r", src),
        // evaluated against a null current node (a null left-hand side must not skip the call)
        format!("`null` | {}", src),
        format!("no_such_key_.{}", src),
    ] {
        nested(&n, d, st);
    }
}

fn nested(src: &str, d: &Value, st: &mut Stats) {
    st.evaluations += 1;
    st.transitions += 1;
    let p = match rparse::parse(src) {
        Ok(p) => p,
        Err(_) => {
            st.count("MODEL_ERROR_nested_form_does_not_parse", 1);
            return;
        }
    };
    let e = match guarded(|| jmespath::compile(src)) {
        Ok(Ok(e)) => e,
        _ => {
            st.violate(Violation {
                key: "C02/nested-call-does-not-compile".into(),
                check: "nested".into(),
                case: json!({"kind": "search", "expression": src, "document": d}),
                expected: "compiles".into(),
                actual: "error".into(),
            });
            return;
        }
    };
    st.validated += 1;
    if let Some((exp, act, _)) = compare(&p, &e, d, &value_to_var(d)) {
        st.violate(Violation {
            key: "C02/nested-call".into(),
            check: "nested".into(),
            case: json!({"kind": "search", "expression": src, "document": d}),
            expected: exp,
            actual: act,
        });
    }
}

/// top-level builtin call -> permissive R-fn oracle; anything else -> general R-eval oracle
fn check_call_or_general(src: &str, d: &Value, st: &mut Stats) {
    match rparse::parse(src) {
        Ok(p) if matches!(p.tree.k, rparse::K::Function(..)) => check_call_expr_p("C02", src, d, "size-ladder", st),
        _ => {
            st.states += 1;
            nested(src, d, st)
        }
    }
}

thread_local! {
    static LOG: RefCell<Vec<Value>> = RefCell::new(Vec::new());
}

/// expref evaluation protocol: the body calls a recording custom function
fn recording_runtime() -> Runtime {
    let mut rt = Runtime::new();
    rt.register_builtin_functions();
    rt.register_function(
        "rec",
        Box::new(|args: &[Rcvar], _: &mut Context<'_>| {
            LOG.with(|l| l.borrow_mut().push(var_to_value(&args[0])));
            // key: member k of the element, else the element itself
            Ok(args[0].get_field("k"))
        }),
    );
    rt
}

fn check_expref_protocol(rt: &Runtime, f: &str, arr: &Value, st: &mut Stats) {
    st.states += 1;
    st.transitions += 1;
    st.evaluations += 1;
    st.validated += 1;
    let src = match f {
        "map" => "map(&rec(@), @)".to_string(),
        _ => format!("{}(@, &rec(@))", f),
    };
    LOG.with(|l| l.borrow_mut().clear());
    let r = guarded(|| {
        let e = rt.compile(&src).map_err(|e| format!("{:?}", e.reason))?;
        e.search(value_to_var(arr)).map(|v| var_to_value(&v)).map_err(|e| format!("{:?}", e.reason))
    });
    let log: Vec<Value> = LOG.with(|l| l.borrow().clone());
    let elems = arr.as_array().unwrap();
    let mut a: Vec<String> = log.iter().map(|v| v.to_string()).collect();
    let mut b: Vec<String> = elems.iter().map(|v| v.to_string()).collect();
    a.sort();
    b.sort();
    let case = json!({"kind": "expref-protocol", "function": f, "array": arr});
    match r {
        Ok(Ok(_)) => {
            if a != b {
                st.violate(Violation {
                    key: format!("C02/{}/expref-evaluation-count", f),
                    check: "expref-protocol".into(),
                    case,
                    expected: format!("one invocation per element, against that element: {:?}", b),
                    actual: format!("{:?}", log),
                });
            } else {
                st.nontrivial += 1;
                st.outcome("expref evaluated once per element");
            }
        }
        other => st.violate(Violation {
            key: format!("C02/{}/expref-protocol-failed", f),
            check: "expref-protocol".into(),
            case,
            expected: "a value".into(),
            actual: format!("{:?}", other),
        }),
    }
}

fn by_docs(maxlen: usize) -> Vec<Value> {
    // elements tagged with their index; keys over {0,1} and {"a","b"}
    let mut out = Vec::new();
    for len in 0..=maxlen {
        for mask in 0..(1u32 << len) {
            let num: Vec<Value> = (0..len).map(|i| json!({"k": (mask >> i) & 1, "i": i})).collect();
            out.push(Value::Array(num));
            if len <= 6 {
                let s: Vec<Value> = (0..len).map(|i| json!({"k": if (mask >> i) & 1 == 1 {"b"} else {"a"}, "i": i})).collect();
                out.push(Value::Array(s));
                let f: Vec<Value> = (0..len).map(|i| if (mask >> i) & 1 == 1 { json!({"k": 1.0, "i": i}) } else { json!({"k": 1, "i": i}) }).collect();
                out.push(Value::Array(f));
            }
        }
    }
    out
}

/// arrays longer than 20 elements (where an unstable sort starts to reorder
/// ties): key patterns deviating from all-zero in <= dev positions
fn long_docs(lens: &[usize], dev: usize) -> Vec<(Value, Value)> {
    let mut out = Vec::new();
    for &len in lens {
        let mut pats: Vec<Vec<usize>> = vec![vec![]];
        let mut layer: Vec<Vec<usize>> = vec![vec![]];
        for _ in 0..dev {
            let mut next = Vec::new();
            for p in &layer {
                let start = p.last().map_or(0, |x| x + 1);
                for i in start..len {
                    let mut q = p.clone();
                    q.push(i);
                    next.push(q);
                }
            }
            pats.extend(next.iter().cloned());
            layer = next;
        }
        for p in pats {
            // deviating positions get key 0 among ones: ties on both sides
            let objs: Vec<Value> = (0..len).map(|i| json!({"k": if p.contains(&i) { 0 } else { 1 }, "i": i})).collect();
            let plain: Vec<Value> = (0..len).map(|i| if p.contains(&i) { json!(1.0) } else { json!(1) }).collect();
            out.push((Value::Array(objs), Value::Array(plain)));
            // already ascending / descending input with the deviating positions moved to an extreme or
            // made equal to a neighbour (a fast path for sorted input would show here)
            if !p.is_empty() {
                for desc in [false, true] {
                    let key = |i: usize| -> i64 { if desc { (len - i) as i64 * 2 } else { i as i64 * 2 } };
                    let objs: Vec<Value> = (0..len).map(|i| json!({"k": if p.contains(&i) { if i % 2 == 0 { -1 } else { key((i + 1) % len) } } else { key(i) }, "i": i})).collect();
                    let plain: Vec<Value> = objs.iter().map(|o| if o["i"].as_u64().unwrap() % 3 == 0 { json!(o["k"].as_i64().unwrap() as f64) } else { o["k"].clone() }).collect();
                    out.push((Value::Array(objs), Value::Array(plain)));
                }
            }
        }
    }
    out
}

pub fn run(tier: Tier) -> i32 {
    let mut rep = Report::new("C02", tier);
    crate::engine::start_watchdog("C02", std::time::Duration::from_secs(120));
    let n = tier.pick(5, 6);
    let num_arrays = seqs(&numbers(), n);
    let str_arrays = seqs(&strs(), tier.pick(3, 4));
    let strings4: Vec<String> = strings(&['a', 'é', '€', '😀', '\u{301}'], 4);
    let strings2: Vec<String> = strings(&['a', 'é', '😀'], 2);
    let mut st = Stats::default();

    // numeric functions
    let nums: Vec<Value> = vec![json!(0), json!(1), json!(-1), json!(1.5), json!(-1.5), json!(2.5), json!(-0.5), json!(1.0), json!(1e10), json!(-2), json!(0.5), json!(i64::MAX), json!(i64::MIN), json!(u64::MAX), json!(1e300), json!(-0.0), json!(2.0000001)];
    for x in &nums {
        for f in ["abs", "ceil", "floor", "to_number", "to_string", "type", "to_array"] {
            call(&format!("{}(x)", f), &json!({ "x": x }), &mut st);
        }
    }
    // magnitude thresholds: 2^p and 10^k neighbourhoods (integer and float spellings, halves), where an
    // arithmetic shortcut (f32, i32/u32, 2^53 exactness, the change of printing form) would first differ
    {
        let mut thr: Vec<Value> = Vec::new();
        for p in [7u32, 8, 15, 16, 23, 24, 25, 31, 32, 33, 52, 53, 54, 62, 63] {
            for dlt in [-1i128, 0, 1] {
                let v: i128 = (1i128 << p) + dlt;
                if v <= i64::MAX as i128 {
                    thr.push(json!(v as i64));
                    thr.push(json!(-(v as i64)));
                } else {
                    thr.push(json!(v as u64));
                }
                thr.push(json!(v as f64));
                thr.push(json!(-(v as f64)));
                if p <= 51 {
                    thr.push(json!(v as f64 + 0.5));
                    thr.push(json!(-(v as f64) - 0.5));
                    thr.push(json!(v as f64 + 0.25));
                    thr.push(json!(-(v as f64) + 0.25));
                }
            }
        }
        let mut pw: i128 = 1;
        for k in 0..=22i32 {
            for dlt in [-1i128, 0, 1] {
                let v = pw + dlt;
                if v >= 0 && v <= u64::MAX as i128 {
                    thr.push(json!(v as u64));
                    if v <= i64::MAX as i128 {
                        thr.push(json!(-(v as i64)));
                    }
                }
            }
            thr.push(json!(10f64.powi(k)));
            thr.push(json!(-(10f64.powi(k))));
            thr.push(json!(10f64.powi(k) * 1.5));
            thr.push(json!(10f64.powi(-k)));
            thr.push(json!(-(10f64.powi(-k)) * 2.5));
            pw = pw.saturating_mul(10);
        }
        thr.extend([json!(0.1), json!(0.2), json!(0.30000000000000004), json!(123456789012345680000.0), json!(1.7976931348623157e308), json!(5e-324), json!(2.2250738585072014e-308), json!(4503599627370495.5), json!(-4503599627370495.5), json!(4503599627370496.5)]);
        let s0 = par_sweep(thr.chunks(8).map(|c| c.to_vec()).collect(), |chunk: &Vec<Value>, st| {
            for x in chunk {
                let d = json!({ "x": x, "y": [x, 0], "z": [x, x, x] });
                for f in ["abs(x)", "ceil(x)", "floor(x)", "to_number(x)", "to_string(x)", "type(x)", "to_array(x)", "to_number(to_string(x))", "sum(y)", "sum(z)", "avg(z)", "max(y)", "min(y)", "sort(y)", "sum([x])", "avg([x])", "max(z)", "abs(abs(x))", "ceil(floor(x))", "floor(ceil(x))", "not_null(x)", "reverse(y)", "contains(z, x)", "length(to_string(x))"] {
                    call(f, &d, st);
                }
            }
        });
        st = st.merge(s0);
    }
    // strings of medium length (around 8, 16, 32, 64, 128, 256 characters): all-ASCII, and with one
    // character at each position replaced by a 1-, 2- or 4-byte one -- a fast path for ASCII-only or
    // short strings would differ here; needles are prefixes, suffixes and infixes of the subject
    {
        let lens: Vec<usize> = tier.pick(vec![7, 8, 9, 15, 16, 17, 31, 32, 33, 63, 64, 65, 128], vec![7, 8, 9, 15, 16, 17, 23, 24, 25, 31, 32, 33, 47, 48, 49, 63, 64, 65, 127, 128, 129, 255, 256, 257]);
        let sl = par_sweep(lens, |&n, st| {
            let base: Vec<char> = (0..n).map(|i| (b'a' + (i % 3) as u8) as char).collect();
            let mut subjects: Vec<String> = vec![base.iter().collect()];
            let step = if n > 70 { n / 16 } else { 1 };
            for pos in (0..n).step_by(step).chain([n - 1]) {
                for c in ['z', 'é', '😀', '\u{301}'] {
                    let mut t = base.clone();
                    t[pos] = c;
                    subjects.push(t.iter().collect());
                }
            }
            for s in &subjects {
                let cs: Vec<char> = s.chars().collect();
                let d = json!({ "x": s });
                for f in ["length(x)", "reverse(x)", "to_string(x)", "to_array(x)", "to_number(x)", "reverse(reverse(x))", "length(reverse(x))", "join(x, [x, x])", "sort([x, x])", "max([x, 'a'])", "contains([x], x)"] {
                    call(f, &d, st);
                }
                let mut needles: Vec<String> = Vec::new();
                for k in [1usize, 2, n / 2, n - 1, n] {
                    needles.push(cs[..k].iter().collect());
                    needles.push(cs[n - k..].iter().collect());
                    needles.push(cs[(n - k) / 2..(n - k) / 2 + k].iter().collect());
                }
                needles.push(format!("{}a", s));
                needles.push(format!("a{}", s));
                needles.push(base.iter().collect());
                needles.sort();
                needles.dedup();
                for y in &needles {
                    let d2 = json!({"x": s, "y": y});
                    for f in ["starts_with(x, y)", "ends_with(x, y)", "contains(x, y)", "starts_with(y, x)", "ends_with(y, x)", "contains(y, x)"] {
                        check_call_expr_p("C02", f, &d2, "medium-strings", st);
                    }
                }
            }
        });
        st = st.merge(sl);
    }
    // strings related by prefix, case and a NUL: the order is by code point, a shorter prefix first
    {
        let pre = [json!("a"), json!("aa"), json!("ab"), json!("a\u{0}"), json!("B"), json!("~"), json!("")];
        for a in seqs(&pre, 3) {
            let d = json!({ "x": a });
            for f in ["sort(x)", "max(x)", "min(x)", "sort_by(x, &@)", "max_by(x, &@)", "min_by(x, &@)", "join('', sort(x))", "reverse(sort(x))"] {
                call(f, &d, &mut st);
            }
        }
    }
    // array[number] functions
    let s1 = par_sweep(num_arrays.chunks(64).map(|c| c.to_vec()).collect(), |chunk: &Vec<Vec<Value>>, st| {
        for a in chunk {
            let d = json!({ "x": a });
            for f in ["avg", "sum", "max", "min", "sort", "reverse", "length", "to_array", "to_string"] {
                call(&format!("{}(x)", f), &d, st);
            }
            if a.len() <= 3 {
                for needle in [json!(1), json!(1.0), json!(2), json!("1"), json!(null), json!([1])] {
                    call("contains(x, y)", &json!({"x": a, "y": needle}), st);
                }
            }
        }
    });
    st = st.merge(s1);
    let s2 = par_sweep(str_arrays.chunks(32).map(|c| c.to_vec()).collect(), |chunk: &Vec<Vec<Value>>, st| {
        for a in chunk {
            let d = json!({ "x": a });
            for f in ["max", "min", "sort", "reverse", "length"] {
                call(&format!("{}(x)", f), &d, st);
            }
            for glue in ["", ",", "é"] {
                call("join(g, x)", &json!({"x": a, "g": glue}), st);
            }
            call("contains(x, 'a')", &d, st);
        }
    });
    st = st.merge(s2);
    // strings
    let s3 = par_sweep(strings4.chunks(32).map(|c| c.to_vec()).collect(), |chunk: &Vec<String>, st| {
        for s in chunk {
            let d = json!({ "x": s });
            for f in ["length", "reverse", "to_string", "to_array", "type", "to_number"] {
                call(&format!("{}(x)", f), &d, st);
            }
            for t in &strings2 {
                let d2 = json!({"x": s, "y": t});
                for f in ["starts_with", "ends_with", "contains"] {
                    call(&format!("{}(x, y)", f), &d2, st);
                }
            }
        }
    });
    st = st.merge(s3);
    // numbers one or two ulps apart, and adjacent doubles above 2^53: ordering is exact
    let close = [json!(0.3), json!(0.30000000000000004), json!(0.1), json!(0.7100000000000002), json!(0.71), json!(9007199254740992u64), json!(9007199254740993u64), json!(9007199254740994u64), json!(1e300), json!(1.0000000000000002e300)];
    for a in seqs(&close, 3) {
        let d = json!({ "x": a });
        for f in ["sort", "max", "min", "reverse"] {
            call(&format!("{}(x)", f), &d, &mut st);
        }
        let objs: Vec<Value> = a.iter().enumerate().map(|(i, k)| json!({"k": k, "i": i})).collect();
        for f in ["sort_by(@, &k)", "max_by(@, &k)", "min_by(@, &k)"] {
            call(f, &Value::Array(objs.clone()), &mut st);
        }
    }
    // to_number
    for s in ["1", "-1", "1.5", "1e2", "0", "", "abc", "\"x\"", "[1]", "true", "null", "{}", "1 2", "-0", "1E+2", "0.0", "12345678901234567890", "-", "e", "\"1\"", "[]", "false", "\u{a0}20", "20\u{2028}", "\u{b}1", "\u{feff}1", "1\u{3000}", " 1", "1 ", "\t1\n", "\u{c}7", "\u{85}7", "1.", "+1", "0x1", ".5", "1e", "Infinity", "NaN", "1_000", "１"] {
        call("to_number(x)", &json!({ "x": s }), &mut st);
    }
    for v in crate::enumr::pool_full() {
        let d = json!({ "x": v });
        for f in ["to_number(x)", "to_string(x)", "to_array(x)", "type(x)", "not_null(x)", "not_null(x, `1`)", "not_null(`null`, x)", "not_null(`null`, `null`, x)"] {
            call(f, &d, &mut st);
        }
    }
    // objects
    let ovals = [json!(1), json!("x"), json!(null), json!([1])];
    let mut objects: Vec<Value> = Vec::new();
    for a in 0..=ovals.len() {
        for b in 0..=ovals.len() {
            for c in 0..=ovals.len() {
                let mut m = serde_json::Map::new();
                if a > 0 { m.insert("a".into(), ovals[a - 1].clone()); }
                if b > 0 { m.insert("b".into(), ovals[b - 1].clone()); }
                if c > 0 { m.insert("c".into(), ovals[c - 1].clone()); }
                objects.push(Value::Object(m));
            }
        }
    }
    for o in &objects {
        let d = json!({ "x": o });
        for f in ["keys(x)", "values(x)", "length(x)", "merge(x)", "to_string(x)", "type(x)"] {
            call(f, &d, &mut st);
        }
    }
    let small: Vec<Value> = objects.iter().filter(|o| o.as_object().unwrap().len() <= 2 && o.as_object().unwrap().values().all(|v| v.is_number() || v.is_string())).cloned().collect();
    let s4 = par_sweep(small.clone(), |o1, st| {
        for o2 in &small {
            call("merge(x, y)", &json!({"x": o1, "y": o2}), st);
            for o3 in small.iter().step_by(3) {
                call("merge(x, y, z)", &json!({"x": o1, "y": o2, "z": o3}), st);
            }
        }
    });
    st = st.merge(s4);
    // map
    let melems = [json!(null), json!(1), json!({"a": 1}), json!({"a": null}), json!("s"), json!([1])];
    for a in seqs(&melems, 3) {
        let d = json!({ "x": a });
        for f in ["map(&a, x)", "map(&@, x)", "map(&to_string(@), x)", "map(&[@], x)", "map(&a.b, x)"] {
            call(f, &d, &mut st);
        }
    }
    // by-functions, stability
    let blen = tier.pick(11, 13);
    let s5 = par_sweep(by_docs(blen).chunks(64).map(|c| c.to_vec()).collect(), |chunk: &Vec<Value>, st| {
        for d in chunk {
            for f in ["sort_by(@, &k)", "max_by(@, &k)", "min_by(@, &k)", "sort_by(@, &to_string(k))", "sort_by(@, &length(to_string(k)))", "map(&k, @)"] {
                call(f, d, st);
            }
            // plain sort: 1 vs 1.0 spellings make stability observable
            let plain: Vec<Value> = d.as_array().unwrap().iter().map(|o| if o["k"] == json!(1) || o["k"] == json!("b") { json!(1.0) } else { json!(1) }).collect();
            call("sort(@)", &Value::Array(plain), st);
        }
    });
    st = st.merge(s5);
    let (lens, dev): (Vec<usize>, usize) = tier.pick((vec![21, 22, 24, 33], 2), (vec![21, 22, 23, 24, 25, 33, 48, 64], 3));
    let s6 = par_sweep(long_docs(&lens, dev).chunks(16).map(|c| c.to_vec()).collect(), |chunk: &Vec<(Value, Value)>, st| {
        for (objs, plain) in chunk {
            check_call_expr_p("C02", "sort_by(@, &k)", objs, "long-arrays", st);
            check_call_expr_p("C02", "sort(@)", plain, "long-arrays", st);
            check_call_expr_p("C02", "max_by(@, &k)", objs, "long-arrays", st);
            check_call_expr_p("C02", "min_by(@, &k)", objs, "long-arrays", st);
        }
    });
    st = st.merge(s6);
    if tier == Tier::Thorough {
        // all 2^18 key patterns of a 21-element array whose first three keys are fixed
        let s7 = par_sweep((0..(1u32 << 18)).step_by(256).collect::<Vec<u32>>(), |&base, st| {
            for mask in base..base + 256 {
                let objs: Vec<Value> = (0..21).map(|i| json!({"k": if i < 3 { i % 2 } else { ((mask >> (i - 3)) & 1) as usize }, "i": i})).collect();
                check_call_expr_p("C02", "sort_by(@, &k)", &Value::Array(objs), "long-arrays-all-patterns", st);
            }
        });
        st = st.merge(s7);
    }
    // re-entrancy: by-functions / map whose key expression itself runs a by-function
    {
        let groups: Vec<Value> = vec![
            json!([{"n": "red", "m": [{"k": 30}, {"k": 20}]}, {"n": "blue", "m": [{"k": 40}, {"k": 45}]}, {"n": "green", "m": [{"k": 10}, {"k": 50}]}, {"n": "grey", "m": [{"k": 15}]}]),
            json!([{"n": "a", "m": [{"k": 2}, {"k": 1}]}, {"n": "b", "m": [{"k": 1}, {"k": 3}]}]),
            json!([{"n": "x", "m": [{"k": "b"}, {"k": "a"}, {"k": "c"}]}, {"n": "y", "m": [{"k": "a"}]}, {"n": "z", "m": [{"k": "c"}, {"k": "b"}]}]),
        ];
        let outer = ["sort_by(@, &{I})", "max_by(@, &{I})", "min_by(@, &{I})", "map(&{I}, @)"];
        let inner = ["sort_by(m, &k)[0].k", "max_by(m, &k).k", "min_by(m, &k).k", "sort(m[*].k)[0]", "max(m[*].k)", "length(sort_by(m, &k))", "join('', map(&to_string(k), sort_by(m, &k)))", "sort_by(m, &max_by(@.k | to_array(@), &@))[0].k"];
        for g in &groups {
            for o in outer {
                for i in inner {
                    call(&o.replace("{I}", i), g, &mut st);
                    // and once more, projected
                    nested(&format!("[@, @][*].{}", o.replace("{I}", i)), g, &mut st);
                }
            }
        }
    }
    // size ladder: long arrays through every array-consuming builtin, with calls before and after
    {
        let sizes: Vec<usize> = tier.pick((6..=40).chain([63, 64, 65, 100, 127, 128, 129, 200, 256, 257, 1000]).collect::<Vec<usize>>(), (6..=70).chain([100, 127, 128, 129, 200, 255, 256, 257, 300, 511, 512, 513, 1000, 1023, 1024, 1025, 4096, 5000, 65536]).collect::<Vec<usize>>());
        let sz = par_sweep(sizes, |&n, st| {
            let objs: Vec<Value> = (0..n).map(|i| json!({"k": (i * 7 + 3) % 5, "s": format!("s{}", (i * 11) % 7), "i": i})).collect();
            let nums: Vec<Value> = (0..n).map(|i| json!(((i * 13 + 5) % 17) as i64 - 8)).collect();
            let strs: Vec<Value> = (0..n).map(|i| json!(format!("{}", (i * 31) % 23))).collect();
            let d = json!({"o": objs, "n": nums, "s": strs});
            for e in [
                "sort_by(o, &k)[*].i", "sort_by(o, &s)[*].i", "max_by(o, &k).i", "min_by(o, &k).i", "sort_by(o, &k)[*].to_string(k)", "max_by(o, &k) | type(@)",
                "sort_by(o, &abs(k))[*].i", "sort_by(o, &to_string(k))[0].i", "map(&k, o)", "map(&abs(k), o) | length(@)", "length(sort_by(o, &k))", "sort_by(o, &k)[-1].i",
                "sort(n)", "max(n)", "min(n)", "sum(n)", "avg(n)", "length(n)", "reverse(n)", "sort(s)", "max(s)", "min(s)", "join(',', s)", "length(join('', s))", "length(o)", "length(n)",
                "reverse(sort(n)) == sort_by(n, &@) | type(@)", "to_string(n) | length(@)", "keys(o[0])", "n[?@ > `0`] | length(@)", "o[*].k | sum(@)", "contains(n, `8`)", "contains(s, '22')",
                "sort_by(o, &k)[*].[i, type(k)] | length(@)", "not_null(max_by(o, &k).i, min_by(o, &k).i)",
                // expression references whose body contains a top-level pipe / or / and / comparison
                "sort_by(o, &@ | k)[*].i", "map(&@ | i, o) | length(@)", "max_by(o, &k | @).i", "min_by(o, &s || k).i", "sort_by(o, &k && s)[0].i", "map(&k == `1`, o) | length(@)", "map(&[k] | [0], o)[3]",
            ] {
                check_call_or_general(e, &d, st);
            }
            // integers above 2^53 mixed with doubles of (nearly) the same value, shuffled: the order
            // must be the order of the real numbers (a total order across the two representations)
            {
                let base: Vec<Value> = vec![
                    json!(9007199254740993u64), json!(9007199254740992.0), json!(9007199254740992u64), json!(9007199254740994u64), json!(9007199254740994.0),
                    json!(9007199254740991u64), json!(9007199254740996.0), json!(9007199254740995u64), json!(-9007199254740993i64), json!(-9007199254740992.0),
                    json!(18446744073709551615u64), json!(1.8446744073709552e19), json!(18446744073709549568u64), json!(9223372036854775807i64), json!(9.223372036854776e18), json!(9223372036854775808u64),
                    json!(i64::MIN), json!(-9.223372036854775808e18), json!(i64::MIN + 1), json!(-9.223372036854777e18),
                ];
                let mm = n.min(96);
                let mixed: Vec<Value> = (0..mm).map(|i| base[(i * 7 + i / 5) % base.len()].clone()).collect();
                for e in ["sort(@)", "max(@)", "min(@)", "sort_by(@, &@)", "max_by(@, &@)", "min_by(@, &@)"] {
                    check_call_or_general(e, &Value::Array(mixed.clone()), st);
                }
            }
            // distinct numbers one ulp apart (the comparison must stay a total order)
            let m = n.min(600);
            let close: Vec<f64> = (0..m).map(|i| 1.0 + (i as f64) * f64::EPSILON).collect();
            let perms: Vec<Vec<f64>> = vec![
                close.iter().rev().cloned().collect(),
                (0..m).map(|i| close[(i * 7) % m]).collect(),
                (0..m).map(|i| close[if i % 2 == 0 { i / 2 } else { m - 1 - i / 2 }]).collect(),
            ];
            for p in perms {
                let arr = Value::Array(p.iter().map(|x| json!(x)).collect());
                for e in ["sort(@)", "max(@)", "min(@)", "sort_by(@, &@)", "max_by(@, &@)", "sort(@)[0]", "sort(@)[-1]"] {
                    check_call_or_general(e, &arr, st);
                }
            }
        });
        st = st.merge(sz);
    }
    // expref evaluation protocol
    let rt = recording_runtime();
    for d in by_docs(tier.pick(5, 7)) {
        if d.as_array().unwrap().is_empty() {
            continue;
        }
        for f in ["sort_by", "max_by", "min_by", "map"] {
            check_expref_protocol(&rt, f, &d, &mut st);
        }
    }
    let model_err: u64 = st.counters.iter().filter(|(k, _)| k.starts_with("MODEL_ERROR")).map(|(_, v)| *v).sum();
    rep.guard("every generated call parses in the reference", model_err == 0);
    rep.guard("values are compared (not only errors)", st.nontrivial > 1000);
    rep.rule = "per builtin, every argument tuple that satisfies its signature over the bounded domains (number/string arrays up to the length bound, strings up to 4 code points over 1-4 byte and combining characters, objects over {a,b,c}, merge tuples, by-function key patterns incl. arrays of 21+ elements with a bounded number of deviating keys), each call at top level (R-fn oracle, ties permissive, element-preserving functions compared textually) and nested in five contexts (R-eval); expref bodies routed through a recording custom function. non-trivial = a value was returned and compared Every call is also evaluated against a null current node (`null` | call, missing.call).".into();
    rep.bounds = json!({"number_array_len": n, "by_function_len": blen, "long_array_lens": lens, "long_array_deviations": dev});
    rep.assumptions = vec!["ties of max/min/max_by/min_by: any element with the extreme key; to_number only on clearly numeric / clearly non-numeric strings; contains(string, non-string) unspecified".into()];
    rep.stats = st;
    rep.finish()
}

pub fn replay(case: &Value) -> Option<(String, bool)> {
    let mut st = Stats::default();
    match case["kind"].as_str()? {
        "call" => check_call_expr_p("C02", case["expression"].as_str()?, &case["document"], "replay", &mut st),
        "search" => nested(case["expression"].as_str()?, &case["document"], &mut st),
        "expref-protocol" => check_expref_protocol(&recording_runtime(), case["function"].as_str()?, &case["array"], &mut st),
        _ => return None,
    }
    Some(match st.violations.first() {
        Some(v) => (format!("{}: expected {} actual {}", v.key, v.expected, v.actual), true),
        None => ("agree".into(), false),
    })
}
