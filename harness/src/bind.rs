//! Binding the reference model to the specification: R-lex + R-parse + R-eval
//! + R-fn must reproduce every `result` / `error` expectation of the
//! compliance fixtures (the authoritative samples of the specification).
//! A failure here means the *oracle* is wrong: machinery error, exit 2.
use crate::reval::{deep_eq, ErrClass, Eval, V};
use crate::rparse;
use serde_json::Value;

pub struct BindResult {
    pub cases: usize,
    pub failures: Vec<String>,
}

pub fn compliance_dir() -> String {
    std::env::var("JMESPATH_REPO").unwrap_or_else(|_| "/repo".into()) + "/jmespath/tests/compliance"
}

pub fn run() -> BindResult {
    let mut cases = 0;
    let mut failures = Vec::new();
    let mut files: Vec<_> = std::fs::read_dir(compliance_dir())
        .expect("compliance dir")
        .filter_map(|e| e.ok())
        .map(|e| e.path())
        .filter(|p| p.extension().map_or(false, |x| x == "json"))
        .collect();
    files.sort();
    let ev = Eval::builtin();
    for f in files {
        let name = f.file_name().unwrap().to_string_lossy().to_string();
        if name == "benchmarks.json" {
            continue;
        }
        let txt = std::fs::read_to_string(&f).unwrap();
        let suites: Value = serde_json::from_str(&txt).unwrap();
        for suite in suites.as_array().unwrap() {
            let given = &suite["given"];
            for c in suite["cases"].as_array().unwrap() {
                let expr = c["expression"].as_str().unwrap();
                if c.get("bench").is_some() {
                    continue;
                }
                cases += 1;
                let got: Result<Value, String> = match rparse::parse(expr) {
                    Err(_) => Err("syntax".into()),
                    Ok(p) => match ev.search(&p.tree, given) {
                        Ok(V::J(v)) => Ok(v),
                        Ok(V::X(_)) => Ok(Value::String("<expref>".into())),
                        Err(e) => Err(match e.class {
                            ErrClass::InvalidArity => "invalid-arity",
                            ErrClass::InvalidType => "invalid-type",
                            ErrClass::InvalidValue => {
                                if e.detail == "UNSPECIFIED" {
                                    "UNSPECIFIED"
                                } else {
                                    "invalid-value"
                                }
                            }
                            ErrClass::UnknownFunction => "unknown-function",
                        }
                        .to_string()),
                    },
                };
                if let Some(exp_err) = c.get("error").and_then(|e| e.as_str()) {
                    match &got {
                        Err(g) if g == exp_err => {}
                        other => failures.push(format!(
                            "{}: {:?} expected error {} got {:?}",
                            name, expr, exp_err, other
                        )),
                    }
                } else if let Some(exp) = c.get("result") {
                    match &got {
                        Ok(v) if deep_eq(v, exp) => {}
                        Err(g) if g == "UNSPECIFIED" => {}
                        other => failures.push(format!(
                            "{}: {:?} expected {} got {:?}",
                            name, expr, exp, other
                        )),
                    }
                }
            }
        }
    }
    BindResult { cases, failures }
}
