//! Adapters between the implementation under test and the reference model.
use jmespath::ast::{Ast, Comparator};
use jmespath::{ErrorReason, JmespathError, Rcvar, RuntimeError, Variable};
use serde_json::{Map, Value};
use std::panic::{catch_unwind, AssertUnwindSafe};

use crate::reval::ErrClass;

pub const EXPREF_MARK: &str = "\u{1}<expref>";

/// Manual conversion (does not use the implementation's Serialize).
pub fn var_to_value(v: &Variable) -> Value {
    match v {
        Variable::Null => Value::Null,
        Variable::Bool(b) => Value::Bool(*b),
        Variable::Number(n) => Value::Number(n.clone()),
        Variable::String(s) => Value::String(s.clone()),
        Variable::Array(a) => Value::Array(a.iter().map(|x| var_to_value(x)).collect()),
        Variable::Object(o) => {
            let mut m = Map::new();
            for (k, x) in o {
                m.insert(k.clone(), var_to_value(x));
            }
            Value::Object(m)
        }
        Variable::Expref(_) => Value::String(EXPREF_MARK.into()),
    }
}

pub fn contains_expref(v: &Variable) -> bool {
    match v {
        Variable::Expref(_) => true,
        Variable::Array(a) => a.iter().any(|x| contains_expref(x)),
        Variable::Object(o) => o.values().any(|x| contains_expref(x)),
        _ => false,
    }
}

/// Manual conversion (does not use the implementation's TryFrom / Deserialize).
pub fn value_to_var(v: &Value) -> Rcvar {
    Rcvar::new(match v {
        Value::Null => Variable::Null,
        Value::Bool(b) => Variable::Bool(*b),
        Value::Number(n) => Variable::Number(n.clone()),
        Value::String(s) => Variable::String(s.clone()),
        Value::Array(a) => Variable::Array(a.iter().map(value_to_var).collect()),
        Value::Object(o) => {
            let mut m = std::collections::BTreeMap::new();
            for (k, x) in o {
                m.insert(k.clone(), value_to_var(x));
            }
            Variable::Object(m)
        }
    })
}

fn cmp_name(c: &Comparator) -> &'static str {
    match c {
        Comparator::Equal => "==",
        Comparator::NotEqual => "!=",
        Comparator::LessThan => "<",
        Comparator::LessThanEqual => "<=",
        Comparator::GreaterThan => ">",
        Comparator::GreaterThanEqual => ">=",
    }
}

/// The public AST in the canonical S-expression form of rparse::sexp.
pub fn ast_sexp(a: &Ast) -> String {
    let mut s = String::new();
    ast_into(a, &mut s);
    s
}

fn opt(v: &Option<i32>) -> String {
    match v {
        Some(x) => x.to_string(),
        None => "_".into(),
    }
}

fn ast_into(a: &Ast, out: &mut String) {
    let two = |tag: &str, l: &Ast, r: &Ast, out: &mut String| {
        out.push('(');
        out.push_str(tag);
        out.push(' ');
        ast_into(l, out);
        out.push(' ');
        ast_into(r, out);
        out.push(')');
    };
    let one = |tag: &str, x: &Ast, out: &mut String| {
        out.push('(');
        out.push_str(tag);
        out.push(' ');
        ast_into(x, out);
        out.push(')');
    };
    match a {
        Ast::Identity { .. } => out.push('@'),
        Ast::Field { name, .. } => out.push_str(&format!("(field {:?})", name)),
        Ast::Index { idx, .. } => out.push_str(&format!("(index {})", idx)),
        Ast::Literal { value, .. } => out.push_str(&format!(
            "(lit {})",
            serde_json::to_string(&var_to_value(value)).unwrap()
        )),
        Ast::Slice {
            start, stop, step, ..
        } => out.push_str(&format!("(slice {} {} {})", opt(start), opt(stop), step)),
        Ast::Subexpr { lhs, rhs, .. } => two("sub", lhs, rhs, out),
        Ast::Projection { lhs, rhs, .. } => two("proj", lhs, rhs, out),
        Ast::Flatten { node, .. } => one("flat", node, out),
        Ast::ObjectValues { node, .. } => one("vals", node, out),
        Ast::Condition {
            predicate, then, ..
        } => two("cond", predicate, then, out),
        Ast::Or { lhs, rhs, .. } => two("or", lhs, rhs, out),
        Ast::And { lhs, rhs, .. } => two("and", lhs, rhs, out),
        Ast::Not { node, .. } => one("not", node, out),
        Ast::Comparison {
            comparator,
            lhs,
            rhs,
            ..
        } => two(&format!("cmp{}", cmp_name(comparator)), lhs, rhs, out),
        Ast::MultiList { elements, .. } => {
            out.push_str("(list");
            for x in elements {
                out.push(' ');
                ast_into(x, out);
            }
            out.push(')');
        }
        Ast::MultiHash { elements, .. } => {
            out.push_str("(hash");
            for kv in elements {
                out.push_str(&format!(" ({:?} ", kv.key));
                ast_into(&kv.value, out);
                out.push(')');
            }
            out.push(')');
        }
        Ast::Function { name, args, .. } => {
            out.push_str(&format!("(call {}", name));
            for x in args {
                out.push(' ');
                ast_into(x, out);
            }
            out.push(')');
        }
        Ast::Expref { ast, .. } => one("expref", ast, out),
    }
}

#[derive(Clone, Debug, PartialEq)]
pub enum IClass {
    Parse,
    Rt(ErrClass),
}

pub fn classify(e: &JmespathError) -> IClass {
    match &e.reason {
        ErrorReason::Parse(_) => IClass::Parse,
        ErrorReason::Runtime(r) => IClass::Rt(match r {
            RuntimeError::InvalidSlice => ErrClass::InvalidValue,
            RuntimeError::TooManyArguments { .. } | RuntimeError::NotEnoughArguments { .. } => {
                ErrClass::InvalidArity
            }
            RuntimeError::UnknownFunction(_) => ErrClass::UnknownFunction,
            RuntimeError::InvalidType { .. } | RuntimeError::InvalidReturnType { .. } => {
                ErrClass::InvalidType
            }
        }),
    }
}

#[derive(Clone, Debug)]
pub enum Out {
    CompileErr(JmespathError),
    Value(Value, bool /* contains expref */),
    SearchErr(JmespathError),
    Panic(String),
}

impl Out {
    pub fn brief(&self) -> String {
        match self {
            Out::CompileErr(e) => format!("compile-error: {:?} @{}", e.reason, e.offset),
            Out::Value(v, x) => format!(
                "value{}: {}",
                if *x { "(expref!)" } else { "" },
                serde_json::to_string(v).unwrap()
            ),
            Out::SearchErr(e) => format!("search-error: {:?} @{}", e.reason, e.offset),
            Out::Panic(m) => format!("PANIC: {}", m),
        }
    }
    /// outcome without positions: value, or error reason
    pub fn sem(&self) -> String {
        match self {
            Out::CompileErr(e) => format!("compile-error: {:?}", classify(e)),
            Out::Value(..) => self.brief(),
            Out::SearchErr(e) => format!("search-error: {:?}", e.reason),
            Out::Panic(m) => format!("PANIC: {}", m),
        }
    }
    pub fn class(&self) -> String {
        match self {
            Out::CompileErr(_) => "compile-error".into(),
            Out::Value(..) => "value".into(),
            Out::SearchErr(e) => format!("search-error/{:?}", classify(e)),
            Out::Panic(_) => "panic".into(),
        }
    }
}

pub fn panic_msg(p: Box<dyn std::any::Any + Send>) -> String {
    if let Some(s) = p.downcast_ref::<&str>() {
        s.to_string()
    } else if let Some(s) = p.downcast_ref::<String>() {
        s.clone()
    } else {
        "<non-string panic payload>".into()
    }
}

pub fn guarded<T>(f: impl FnOnce() -> T) -> Result<T, String> {
    catch_unwind(AssertUnwindSafe(f)).map_err(panic_msg)
}

pub fn impl_compile_ok(expr: &str) -> Result<bool, String> {
    guarded(|| jmespath::compile(expr).is_ok())
}

pub fn impl_search(expr: &str, doc: &Value) -> Out {
    match guarded(|| {
        let e = match jmespath::compile(expr) {
            Ok(e) => e,
            Err(e) => return Out::CompileErr(e),
        };
        let d = value_to_var(doc);
        match e.search(d) {
            Ok(v) => Out::Value(var_to_value(&v), contains_expref(&v)),
            Err(e) => Out::SearchErr(e),
        }
    }) {
        Ok(o) => o,
        Err(m) => Out::Panic(m),
    }
}

pub fn silence_panics() {
    if std::env::var("VERIF_SHOW_PANICS").is_ok() {
        return;
    }
    std::panic::set_hook(Box::new(|_| {}));
}
