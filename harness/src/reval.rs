//! R-eval / R-fn / R-slice: reference interpreter over serde_json::Value,
//! written from the JMESPath specification (DESIGN Appendix A).
use crate::rparse::{K, N};
use serde_json::{Map, Number, Value};

#[derive(Clone, Debug, PartialEq)]
pub enum V {
    J(Value),
    X(N),
}

#[derive(Clone, Copy, Debug, PartialEq, Eq, PartialOrd, Ord, Hash)]
pub enum ErrClass {
    InvalidValue,
    UnknownFunction,
    InvalidArity,
    InvalidType,
}

#[derive(Clone, Debug, PartialEq)]
pub struct RErr {
    pub class: ErrClass,
    /// token index the error is attributed to: '(' of the failing call, or
    /// the '[' .. ']' span of the slice
    pub tok_lo: usize,
    pub tok_hi: usize,
    pub detail: String,
}

pub type R<T> = Result<T, RErr>;

pub fn null() -> Value {
    Value::Null
}

pub fn truthy(v: &Value) -> bool {
    match v {
        Value::Null => false,
        Value::Bool(b) => *b,
        Value::String(s) => !s.is_empty(),
        Value::Array(a) => !a.is_empty(),
        Value::Object(o) => !o.is_empty(),
        Value::Number(_) => true,
    }
}

pub fn num_f(n: &Number) -> f64 {
    n.as_f64().unwrap_or(f64::NAN)
}

pub fn num_eq(a: &Number, b: &Number) -> bool {
    if let (Some(x), Some(y)) = (a.as_i64(), b.as_i64()) {
        return x == y;
    }
    if let (Some(x), Some(y)) = (a.as_u64(), b.as_u64()) {
        return x == y;
    }
    let (x, y) = (num_f(a), num_f(b));
    if x == y {
        return true;
    }
    let d = (x - y).abs();
    let m = x.abs().max(y.abs());
    m > 0.0 && d / m < 1e-12
}

/// deep structural equality, numbers by value
pub fn deep_eq(a: &Value, b: &Value) -> bool {
    match (a, b) {
        (Value::Null, Value::Null) => true,
        (Value::Bool(x), Value::Bool(y)) => x == y,
        (Value::String(x), Value::String(y)) => x == y,
        (Value::Number(x), Value::Number(y)) => num_eq(x, y),
        (Value::Array(x), Value::Array(y)) => {
            x.len() == y.len() && x.iter().zip(y).all(|(p, q)| deep_eq(p, q))
        }
        (Value::Object(x), Value::Object(y)) => {
            x.len() == y.len()
                && x.iter()
                    .all(|(k, v)| y.get(k).map_or(false, |w| deep_eq(v, w)))
        }
        _ => false,
    }
}

pub fn type_name(v: &Value) -> &'static str {
    match v {
        Value::Null => "null",
        Value::Bool(_) => "boolean",
        Value::Number(_) => "number",
        Value::String(_) => "string",
        Value::Array(_) => "array",
        Value::Object(_) => "object",
    }
}

/// R-slice: Python's slice.indices rule in i128 arithmetic.
pub fn slice_indices(len: usize, start: Option<i64>, stop: Option<i64>, step: i64) -> Vec<usize> {
    assert!(step != 0);
    let n = len as i128;
    let step = step as i128;
    let clamp = |v: i128, lo: i128, hi: i128| v.max(lo).min(hi);
    let (lo, hi) = if step > 0 { (0, n) } else { (-1, n - 1) };
    let norm = |x: Option<i64>, dflt: i128| -> i128 {
        match x {
            None => dflt,
            Some(v) => {
                let v = v as i128;
                if v < 0 {
                    clamp(v + n, lo, hi)
                } else {
                    clamp(v, lo, hi)
                }
            }
        }
    };
    let a = norm(start, if step > 0 { 0 } else { n - 1 });
    let b = norm(stop, if step > 0 { n } else { -1 });
    let mut out = Vec::new();
    let mut i = a;
    if step > 0 {
        while i < b {
            out.push(i as usize);
            i += step;
        }
    } else {
        while i > b {
            out.push(i as usize);
            i += step;
        }
    }
    out
}

/// Pluggable function table so that C15 can model custom registries.
pub trait Funcs {
    /// None = unknown function
    fn call(&self, ev: &Eval, name: &str, args: &[V], at: usize) -> Option<R<V>>;
}

pub struct Builtins;

pub struct Eval<'f> {
    pub funcs: &'f dyn Funcs,
    /// a step-0 slice of a non-array: error (false) or null (true); the
    /// property leaves this open, the oracle accepts either
    pub step0_nonarray_null: bool,
}

fn jv(v: Value) -> R<V> {
    Ok(V::J(v))
}

impl<'f> Eval<'f> {
    pub fn builtin() -> Eval<'static> {
        Eval {
            funcs: &Builtins,
            step0_nonarray_null: false,
        }
    }
    pub fn builtin_lenient() -> Eval<'static> {
        Eval {
            funcs: &Builtins,
            step0_nonarray_null: true,
        }
    }

    pub fn search(&self, n: &N, cur: &Value) -> R<V> {
        self.ev(n, cur)
    }

    /// evaluate to a JSON value (an expression reference is not a value here;
    /// callers that can see exprefs use `ev`)
    pub fn evj(&self, n: &N, cur: &Value) -> R<Value> {
        match self.ev(n, cur)? {
            V::J(v) => Ok(v),
            V::X(_) => Ok(Value::String("<expref>".into())),
        }
    }

    pub fn ev(&self, n: &N, cur: &Value) -> R<V> {
        match &n.k {
            K::Identity => jv(cur.clone()),
            K::Field(name) => jv(match cur {
                Value::Object(m) => m.get(name).cloned().unwrap_or(Value::Null),
                _ => Value::Null,
            }),
            K::Index(i) => jv(match cur {
                Value::Array(a) => {
                    let n = a.len() as i64;
                    let k = if *i < 0 { n + *i } else { *i };
                    if k >= 0 && k < n {
                        a[k as usize].clone()
                    } else {
                        Value::Null
                    }
                }
                _ => Value::Null,
            }),
            K::Literal(v) => jv(v.clone()),
            K::Slice(a, b, c) => {
                if *c == 0 && self.step0_nonarray_null && !cur.is_array() {
                    return jv(Value::Null);
                }
                if *c == 0 {
                    return Err(RErr {
                        class: ErrClass::InvalidValue,
                        tok_lo: n.s,
                        tok_hi: n.e,
                        detail: "slice step 0".into(),
                    });
                }
                jv(match cur {
                    Value::Array(xs) => Value::Array(
                        slice_indices(xs.len(), *a, *b, *c)
                            .into_iter()
                            .map(|i| xs[i].clone())
                            .collect(),
                    ),
                    _ => Value::Null,
                })
            }
            K::Subexpr(l, r, _) => {
                let lv = self.evj(l, cur)?;
                self.ev(r, &lv)
            }
            K::Projection(l, r) => {
                let lv = self.evj(l, cur)?;
                match lv {
                    Value::Array(xs) => {
                        let mut out = Vec::new();
                        for x in &xs {
                            let v = self.evj(r, x)?;
                            if !v.is_null() {
                                out.push(v);
                            }
                        }
                        jv(Value::Array(out))
                    }
                    _ => jv(Value::Null),
                }
            }
            K::Flatten(x) => {
                let v = self.evj(x, cur)?;
                jv(match v {
                    Value::Array(xs) => {
                        let mut out = Vec::new();
                        for x in xs {
                            match x {
                                Value::Array(inner) => out.extend(inner),
                                other => out.push(other),
                            }
                        }
                        Value::Array(out)
                    }
                    _ => Value::Null,
                })
            }
            K::ObjectValues(x) => {
                let v = self.evj(x, cur)?;
                jv(match v {
                    // serde_json's Map is a BTreeMap here: ascending key order
                    Value::Object(m) => Value::Array(m.values().cloned().collect()),
                    _ => Value::Null,
                })
            }
            K::Condition(p, t) => {
                let pv = self.evj(p, cur)?;
                if truthy(&pv) {
                    self.ev(t, cur)
                } else {
                    jv(Value::Null)
                }
            }
            K::Or(l, r) => {
                let lv = self.evj(l, cur)?;
                if truthy(&lv) {
                    jv(lv)
                } else {
                    self.ev(r, cur)
                }
            }
            K::And(l, r) => {
                let lv = self.evj(l, cur)?;
                if !truthy(&lv) {
                    jv(lv)
                } else {
                    self.ev(r, cur)
                }
            }
            K::Not(x) => {
                let v = self.evj(x, cur)?;
                jv(Value::Bool(!truthy(&v)))
            }
            K::Cmp(op, l, r) => {
                let a = self.evj(l, cur)?;
                let b = self.evj(r, cur)?;
                jv(compare(op, &a, &b))
            }
            K::MultiList(els) => {
                if cur.is_null() {
                    return jv(Value::Null);
                }
                let mut out = Vec::new();
                for e in els {
                    out.push(self.evj(e, cur)?);
                }
                jv(Value::Array(out))
            }
            K::MultiHash(kvs) => {
                if cur.is_null() {
                    return jv(Value::Null);
                }
                let mut m = Map::new();
                for (k, e) in kvs {
                    let v = self.evj(e, cur)?;
                    m.insert(k.clone(), v);
                }
                jv(Value::Object(m))
            }
            K::Function(name, args, at) => {
                let mut av = Vec::new();
                for a in args {
                    av.push(self.ev(a, cur)?);
                }
                match self.funcs.call(self, name, &av, *at) {
                    Some(r) => r,
                    None => Err(RErr {
                        class: ErrClass::UnknownFunction,
                        tok_lo: *at,
                        tok_hi: *at + 1,
                        detail: name.clone(),
                    }),
                }
            }
            K::Expref(x) => Ok(V::X((**x).clone())),
        }
    }
}

pub fn compare(op: &str, a: &Value, b: &Value) -> Value {
    match op {
        "==" => Value::Bool(deep_eq(a, b)),
        "!=" => Value::Bool(!deep_eq(a, b)),
        _ => match (a, b) {
            (Value::Number(_), Value::Number(_)) => {
                // ordering is exact numeric order (only '==' is tolerant)
                let c = key_cmp(a, b);
                Value::Bool(match op {
                    "<" => c == std::cmp::Ordering::Less,
                    "<=" => c != std::cmp::Ordering::Greater,
                    ">" => c == std::cmp::Ordering::Greater,
                    ">=" => c != std::cmp::Ordering::Less,
                    _ => unreachable!(),
                })
            }
            _ => Value::Null,
        },
    }
}

// ---------------------------------------------------------------------------
// R-fn: signature table + values

#[derive(Clone, Debug, PartialEq)]
pub enum Ty {
    Any,
    Number,
    String,
    Bool,
    Array,
    Object,
    Null,
    Expref,
    ArrayOf(Box<Ty>),
    Union(Vec<Ty>),
}

impl Ty {
    pub fn admits(&self, v: &V) -> bool {
        match (self, v) {
            (Ty::Union(ts), v) => ts.iter().any(|t| t.admits(v)),
            (Ty::Expref, V::X(_)) => true,
            (Ty::Expref, _) => false,
            (_, V::X(_)) => false, // an expression reference is never a value
            (Ty::Any, V::J(_)) => true,
            (Ty::Number, V::J(Value::Number(_))) => true,
            (Ty::String, V::J(Value::String(_))) => true,
            (Ty::Bool, V::J(Value::Bool(_))) => true,
            (Ty::Array, V::J(Value::Array(_))) => true,
            (Ty::Object, V::J(Value::Object(_))) => true,
            (Ty::Null, V::J(Value::Null)) => true,
            (Ty::ArrayOf(t), V::J(Value::Array(xs))) => {
                xs.iter().all(|x| t.admits(&V::J(x.clone())))
            }
            _ => false,
        }
    }
}

pub struct Sig {
    pub name: &'static str,
    pub params: Vec<Ty>,
    pub variadic: Option<Ty>,
    /// declared result type (checked on every successful call)
    pub result: Ty,
}

pub fn signatures() -> Vec<Sig> {
    use Ty::*;
    let arr_num = || ArrayOf(Box::new(Number));
    let arr_str = || ArrayOf(Box::new(String));
    let s = |name, params: Vec<Ty>, variadic: Option<Ty>, result: Ty| Sig {
        name,
        params,
        variadic,
        result,
    };
    vec![
        s("abs", vec![Number], None, Number),
        s("avg", vec![arr_num()], None, Union(vec![Number, Null])),
        s("ceil", vec![Number], None, Number),
        s("contains", vec![Union(vec![Array, String]), Any], None, Bool),
        s("ends_with", vec![String, String], None, Bool),
        s("floor", vec![Number], None, Number),
        s("join", vec![String, arr_str()], None, String),
        s("keys", vec![Object], None, arr_str()),
        s("length", vec![Union(vec![String, Array, Object])], None, Number),
        s("map", vec![Expref, Array], None, Array),
        s("max", vec![Union(vec![arr_num(), arr_str()])], None, Union(vec![Number, String, Null])),
        s("max_by", vec![Array, Expref], None, Any),
        s("merge", vec![Object], Some(Object), Object),
        s("min", vec![Union(vec![arr_num(), arr_str()])], None, Union(vec![Number, String, Null])),
        s("min_by", vec![Array, Expref], None, Any),
        s("not_null", vec![Any], Some(Any), Any),
        s("reverse", vec![Union(vec![Array, String])], None, Union(vec![Array, String])),
        s("sort", vec![Union(vec![arr_num(), arr_str()])], None, Array),
        s("sort_by", vec![Array, Expref], None, Array),
        s("starts_with", vec![String, String], None, Bool),
        s("sum", vec![arr_num()], None, Number),
        s("to_array", vec![Any], None, Array),
        s("to_number", vec![Any], None, Union(vec![Number, Null])),
        s("to_string", vec![Any], None, String),
        s("type", vec![Any], None, String),
        s("values", vec![Object], None, Array),
    ]
}

pub fn sig_of(name: &str) -> Option<Sig> {
    signatures().into_iter().find(|s| s.name == name)
}

fn ferr(class: ErrClass, at: usize, detail: impl Into<String>) -> RErr {
    RErr {
        class,
        tok_lo: at,
        tok_hi: at + 1,
        detail: detail.into(),
    }
}

pub fn check_sig(sig: &Sig, args: &[V], at: usize) -> R<()> {
    let n = sig.params.len();
    let ok = if sig.variadic.is_some() {
        args.len() >= n
    } else {
        args.len() == n
    };
    if !ok {
        return Err(ferr(
            ErrClass::InvalidArity,
            at,
            format!("{}: {} args", sig.name, args.len()),
        ));
    }
    for (i, a) in args.iter().enumerate() {
        let t = sig.params.get(i).or(sig.variadic.as_ref()).unwrap();
        if !t.admits(a) {
            return Err(ferr(
                ErrClass::InvalidType,
                at,
                format!("{}: arg {}", sig.name, i),
            ));
        }
    }
    Ok(())
}

fn f64_to_value(x: f64) -> Option<Value> {
    Number::from_f64(x).map(Value::Number)
}

fn as_arr(v: &V) -> &Vec<Value> {
    match v {
        V::J(Value::Array(a)) => a,
        _ => unreachable!(),
    }
}
fn as_str(v: &V) -> &str {
    match v {
        V::J(Value::String(s)) => s,
        _ => unreachable!(),
    }
}
fn as_j(v: &V) -> &Value {
    match v {
        V::J(x) => x,
        _ => unreachable!(),
    }
}
fn as_x(v: &V) -> &N {
    match v {
        V::X(n) => n,
        _ => unreachable!(),
    }
}

/// The order of the real numbers two JSON numbers denote: integers (i64 / u64) are exact,
/// doubles are exact rationals; a mixed pair is compared without rounding the integer.
pub fn exact_num_cmp(x: &Number, y: &Number) -> std::cmp::Ordering {
    use std::cmp::Ordering::*;
    fn int_of(n: &Number) -> Option<i128> {
        n.as_i64().map(|v| v as i128).or_else(|| n.as_u64().map(|v| v as i128))
    }
    fn int_vs_float(i: i128, f: f64) -> std::cmp::Ordering {
        // |i| < 2^64; a double beyond +-2^65 decides by sign alone
        if f >= 3.6893488147419103e19 {
            return Less;
        }
        if f <= -3.6893488147419103e19 {
            return Greater;
        }
        let t = f.trunc();
        let ti = t as i128; // exact: |t| < 2^65
        match i.cmp(&ti) {
            Equal => {
                let frac = f - t; // exact
                if frac > 0.0 { Less } else if frac < 0.0 { Greater } else { Equal }
            }
            o => o,
        }
    }
    match (int_of(x), int_of(y)) {
        (Some(a), Some(b)) => a.cmp(&b),
        (Some(a), None) => int_vs_float(a, num_f(y)),
        (None, Some(b)) => int_vs_float(b, num_f(x)).reverse(),
        (None, None) => num_f(x).partial_cmp(&num_f(y)).unwrap(),
    }
}

/// total order used for sorting keys that are all numbers or all strings
pub fn key_cmp(a: &Value, b: &Value) -> std::cmp::Ordering {
    match (a, b) {
        (Value::Number(x), Value::Number(y)) => exact_num_cmp(x, y),
        // code-point order == byte order of UTF-8
        (Value::String(x), Value::String(y)) => {
            let xc: Vec<u32> = x.chars().map(|c| c as u32).collect();
            let yc: Vec<u32> = y.chars().map(|c| c as u32).collect();
            xc.cmp(&yc)
        }
        _ => unreachable!(),
    }
}

/// keys produced by an expref for the by-functions: all numbers or all strings
fn by_keys(ev: &Eval, xs: &[Value], x: &N, at: usize, fname: &str) -> R<Vec<Value>> {
    // element by element, in order: evaluate the key, then check its type
    // (the first error in evaluation order wins)
    let mut keys: Vec<Value> = Vec::new();
    let mut first_type: Option<&'static str> = None;
    for e in xs {
        let k = match ev.ev(x, e)? {
            V::J(v) => v,
            V::X(_) => {
                return Err(ferr(ErrClass::InvalidType, at, format!("{}: expref key", fname)))
            }
        };
        let t = type_name(&k);
        match first_type {
            None => {
                if t != "number" && t != "string" {
                    return Err(ferr(ErrClass::InvalidType, at, format!("{}: key type {}", fname, t)));
                }
                first_type = Some(t);
            }
            Some(ft) => {
                if t != ft {
                    return Err(ferr(ErrClass::InvalidType, at, format!("{}: mixed key types", fname)));
                }
            }
        }
        keys.push(k);
    }
    Ok(keys)
}

/// The value a builtin returns, or the set of acceptable values where the
/// specification leaves a choice (ties of max_by/min_by).
pub enum Spec {
    Exactly(Value),
    /// the result is built from input elements: identical JSON text required
    Same(Value),
    AnyOf(Vec<Value>),
    /// compared after re-parsing as JSON (to_string of a non-string)
    JsonTextOf(Value),
    /// the specification does not pin the value for this input
    Unspecified,
    /// result is not JSON-representable (non-finite); see C12 known findings
    NonFinite,
}

impl Builtins {
    pub fn spec(ev: &Eval, name: &str, args: &[V], at: usize) -> Option<R<Spec>> {
        let sig = sig_of(name)?;
        if let Err(e) = check_sig(&sig, args, at) {
            return Some(Err(e));
        }
        use Spec::*;
        let ex = |v: Value| Some(Ok(Exactly(v)));
        let same = |v: Value| Some(Ok(Same(v)));
        let num = |x: f64| match f64_to_value(x) {
            Some(v) => Some(Ok(Exactly(v))),
            None => Some(Ok(NonFinite)),
        };
        match name {
            "abs" => num(num_f(as_j(&args[0]).as_number().unwrap()).abs()),
            "ceil" => num(num_f(as_j(&args[0]).as_number().unwrap()).ceil()),
            "floor" => num(num_f(as_j(&args[0]).as_number().unwrap()).floor()),
            "avg" => {
                let a = as_arr(&args[0]);
                if a.is_empty() {
                    return ex(Value::Null);
                }
                let s: f64 = a.iter().map(|x| num_f(x.as_number().unwrap())).sum();
                num(s / a.len() as f64)
            }
            "sum" => {
                let a = as_arr(&args[0]);
                let s: f64 = a.iter().map(|x| num_f(x.as_number().unwrap())).sum();
                num(s)
            }
            "contains" => match as_j(&args[0]) {
                Value::Array(a) => {
                    let needle = as_j(&args[1]);
                    ex(Value::Bool(a.iter().any(|x| deep_eq(x, needle))))
                }
                Value::String(s) => match as_j(&args[1]) {
                    Value::String(n) => ex(Value::Bool(s.contains(n.as_str()))),
                    _ => Some(Ok(Unspecified)),
                },
                _ => unreachable!(),
            },
            "ends_with" => ex(Value::Bool(as_str(&args[0]).ends_with(as_str(&args[1])))),
            "starts_with" => ex(Value::Bool(as_str(&args[0]).starts_with(as_str(&args[1])))),
            "join" => {
                let glue = as_str(&args[0]);
                let parts: Vec<&str> = as_arr(&args[1]).iter().map(|x| x.as_str().unwrap()).collect();
                ex(Value::String(parts.join(glue)))
            }
            "keys" => ex(Value::Array(
                as_j(&args[0])
                    .as_object()
                    .unwrap()
                    .keys()
                    .map(|k| Value::String(k.clone()))
                    .collect(),
            )),
            "values" => same(Value::Array(
                as_j(&args[0]).as_object().unwrap().values().cloned().collect(),
            )),
            "length" => ex(Value::from(match as_j(&args[0]) {
                Value::String(s) => s.chars().count(),
                Value::Array(a) => a.len(),
                Value::Object(o) => o.len(),
                _ => unreachable!(),
            })),
            "map" => {
                let x = as_x(&args[0]);
                let mut out = Vec::new();
                for e in as_arr(&args[1]) {
                    match ev.ev(x, e) {
                        Ok(V::J(v)) => out.push(v),
                        Ok(V::X(_)) => return Some(Ok(Unspecified)),
                        Err(e) => return Some(Err(e)),
                    }
                }
                same(Value::Array(out))
            }
            "max" | "min" => {
                let a = as_arr(&args[0]);
                if a.is_empty() {
                    return ex(Value::Null);
                }
                let mut best = &a[0];
                for x in a {
                    let c = key_cmp(x, best);
                    if (name == "max" && c == std::cmp::Ordering::Greater)
                        || (name == "min" && c == std::cmp::Ordering::Less)
                    {
                        best = x;
                    }
                }
                Some(Ok(AnyOf(
                    a.iter()
                        .filter(|x| key_cmp(x, best) == std::cmp::Ordering::Equal)
                        .cloned()
                        .collect(),
                )))
            }
            "max_by" | "min_by" => {
                let a = as_arr(&args[0]);
                if a.is_empty() {
                    return ex(Value::Null);
                }
                let keys = match by_keys(ev, a, as_x(&args[1]), at, name) {
                    Ok(k) => k,
                    Err(e) => return Some(Err(e)),
                };
                let mut bi = 0;
                for i in 0..a.len() {
                    let c = key_cmp(&keys[i], &keys[bi]);
                    if (name == "max_by" && c == std::cmp::Ordering::Greater)
                        || (name == "min_by" && c == std::cmp::Ordering::Less)
                    {
                        bi = i;
                    }
                }
                Some(Ok(AnyOf(
                    (0..a.len())
                        .filter(|&i| key_cmp(&keys[i], &keys[bi]) == std::cmp::Ordering::Equal)
                        .map(|i| a[i].clone())
                        .collect(),
                )))
            }
            "merge" => {
                let mut m = Map::new();
                for a in args {
                    for (k, v) in as_j(a).as_object().unwrap() {
                        m.insert(k.clone(), v.clone());
                    }
                }
                same(Value::Object(m))
            }
            "not_null" => {
                for a in args {
                    if !as_j(a).is_null() {
                        return same(as_j(a).clone());
                    }
                }
                ex(Value::Null)
            }
            "reverse" => match as_j(&args[0]) {
                Value::Array(a) => same(Value::Array(a.iter().rev().cloned().collect())),
                Value::String(s) => ex(Value::String(s.chars().rev().collect())),
                _ => unreachable!(),
            },
            "sort" => {
                let mut a: Vec<Value> = as_arr(&args[0]).clone();
                // insertion sort: stable by construction
                for i in 1..a.len() {
                    let mut j = i;
                    while j > 0 && key_cmp(&a[j - 1], &a[j]) == std::cmp::Ordering::Greater {
                        a.swap(j - 1, j);
                        j -= 1;
                    }
                }
                same(Value::Array(a))
            }
            "sort_by" => {
                let a = as_arr(&args[0]);
                let keys = match by_keys(ev, a, as_x(&args[1]), at, name) {
                    Ok(k) => k,
                    Err(e) => return Some(Err(e)),
                };
                let mut idx: Vec<usize> = (0..a.len()).collect();
                for i in 1..idx.len() {
                    let mut j = i;
                    while j > 0
                        && key_cmp(&keys[idx[j - 1]], &keys[idx[j]]) == std::cmp::Ordering::Greater
                    {
                        idx.swap(j - 1, j);
                        j -= 1;
                    }
                }
                same(Value::Array(idx.into_iter().map(|i| a[i].clone()).collect()))
            }
            "to_array" => match as_j(&args[0]) {
                Value::Array(_) => same(as_j(&args[0]).clone()),
                other => same(Value::Array(vec![other.clone()])),
            },
            "to_number" => match as_j(&args[0]) {
                Value::Number(_) => same(as_j(&args[0]).clone()),
                Value::String(s) => match classify_number_text(s) {
                    NumText::Number(v) => ex(v),
                    NumText::NotANumber => ex(Value::Null),
                    NumText::Unclear => Some(Ok(Unspecified)),
                },
                _ => ex(Value::Null),
            },
            "to_string" => match as_j(&args[0]) {
                Value::String(_) => same(as_j(&args[0]).clone()),
                other => Some(Ok(JsonTextOf(other.clone()))),
            },
            "type" => ex(Value::String(type_name(as_j(&args[0])).into())),
            _ => None,
        }
    }
}

pub enum NumText {
    Number(Value),
    NotANumber,
    Unclear,
}

/// strings that are clearly JSON numbers, clearly not numbers, or spellings
/// the specification does not settle (padding, "1.", "+1", "0x1" ...)
pub fn classify_number_text(s: &str) -> NumText {
    // strict JSON number grammar
    let b = s.as_bytes();
    let mut i = 0;
    let n = b.len();
    let strict = (|| {
        if i < n && b[i] == b'-' {
            i += 1;
        }
        if i >= n {
            return false;
        }
        if b[i] == b'0' {
            i += 1;
        } else if b[i].is_ascii_digit() {
            while i < n && b[i].is_ascii_digit() {
                i += 1;
            }
        } else {
            return false;
        }
        if i < n && b[i] == b'.' {
            i += 1;
            let st = i;
            while i < n && b[i].is_ascii_digit() {
                i += 1;
            }
            if i == st {
                return false;
            }
        }
        if i < n && (b[i] == b'e' || b[i] == b'E') {
            i += 1;
            if i < n && (b[i] == b'+' || b[i] == b'-') {
                i += 1;
            }
            let st = i;
            while i < n && b[i].is_ascii_digit() {
                i += 1;
            }
            if i == st {
                return false;
            }
        }
        i == n
    })();
    if strict {
        return match serde_json::from_str::<Value>(s) {
            Ok(v @ Value::Number(_)) => NumText::Number(v),
            _ => NumText::Unclear, // out of range for a double
        };
    }
    // a strict number padded with JSON whitespace only (SP, TAB, LF, CR): the
    // implementation's JSON reader skips it, the specification does not say
    let trimmed = s.trim_matches(|c| c == ' ' || c == '\t' || c == '\n' || c == '\r');
    if trimmed.len() != s.len() {
        if let NumText::Number(_) | NumText::Unclear = classify_number_text(trimmed) {
            return NumText::Unclear;
        }
    }
    // everything else is not a JSON number: other JSON types, other paddings
    // (NBSP, U+2028, ...), "1.", "+1", "0x1", words
    NumText::NotANumber
}

impl Funcs for Builtins {
    fn call(&self, ev: &Eval, name: &str, args: &[V], at: usize) -> Option<R<V>> {
        match Builtins::spec(ev, name, args, at)? {
            Err(e) => Some(Err(e)),
            Ok(Spec::Exactly(v)) | Ok(Spec::Same(v)) => Some(Ok(V::J(v))),
            Ok(Spec::AnyOf(vs)) => {
                // a choice among differently spelled candidates makes every
                // enclosing expression unspecified
                let t0 = serde_json::to_string(&vs[0]).unwrap();
                if vs.iter().all(|v| serde_json::to_string(v).unwrap() == t0) {
                    Some(Ok(V::J(vs.into_iter().next().unwrap())))
                } else {
                    Some(Err(RErr {
                        class: ErrClass::InvalidValue,
                        tok_lo: at,
                        tok_hi: at + 1,
                        detail: "UNSPECIFIED".into(),
                    }))
                }
            }
            Ok(Spec::JsonTextOf(v)) => Some(Ok(V::J(Value::String(serde_json::to_string(&v).unwrap())))),
            Ok(Spec::Unspecified) | Ok(Spec::NonFinite) => Some(Err(RErr {
                class: ErrClass::InvalidValue,
                tok_lo: at,
                tok_hi: at + 1,
                detail: "UNSPECIFIED".into(),
            })),
        }
    }
}

/// Does `got` satisfy the declared result type?
pub fn result_type_ok(sig: &Sig, got: &Value) -> bool {
    sig.result.admits(&V::J(got.clone()))
}
