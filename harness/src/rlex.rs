//! R-lex: reference tokeniser, written from the ABNF and the documented lexical
//! rules (C03 statement), independent of jmespath::lexer.
use serde_json::Value;

#[derive(Clone, Debug, PartialEq)]
pub enum Tok {
    Ident(String),
    Quoted(String),
    Num(i64),
    /// backtick literal or raw string
    Lit(Value),
    Dot,
    Star,
    Flatten,
    And,
    Or,
    Pipe,
    Filter,
    Lbracket,
    Rbracket,
    Comma,
    Colon,
    Not,
    Ne,
    Eq,
    Gt,
    Gte,
    Lt,
    Lte,
    At,
    Amp,
    Lparen,
    Rparen,
    Lbrace,
    Rbrace,
}

#[derive(Clone, Debug, PartialEq)]
pub struct LexErr {
    pub pos: usize,
    pub what: &'static str,
}

fn err<T>(pos: usize, what: &'static str) -> Result<T, LexErr> {
    Err(LexErr { pos, what })
}

/// Decode the content of a JSON string (without the surrounding quotes).
/// Own implementation (RFC 8259): escapes, \uXXXX, surrogate pairs; control
/// characters below U+0020 and unescaped quotes are rejected.
pub fn json_string_decode(content: &str) -> Option<String> {
    let cs: Vec<char> = content.chars().collect();
    let mut out = String::new();
    let mut i = 0;
    let hex4 = |cs: &[char], at: usize| -> Option<u32> {
        if at + 4 > cs.len() {
            return None;
        }
        let mut v = 0u32;
        for k in 0..4 {
            v = v * 16 + cs[at + k].to_digit(16)?;
        }
        Some(v)
    };
    while i < cs.len() {
        let c = cs[i];
        if c == '"' {
            return None;
        }
        if (c as u32) < 0x20 {
            return None;
        }
        if c != '\\' {
            out.push(c);
            i += 1;
            continue;
        }
        i += 1;
        if i >= cs.len() {
            return None;
        }
        match cs[i] {
            '"' => out.push('"'),
            '\\' => out.push('\\'),
            '/' => out.push('/'),
            'b' => out.push('\u{8}'),
            'f' => out.push('\u{c}'),
            'n' => out.push('\n'),
            'r' => out.push('\r'),
            't' => out.push('\t'),
            'u' => {
                let v = hex4(&cs, i + 1)?;
                i += 4;
                if (0xD800..0xDC00).contains(&v) {
                    // need a low surrogate
                    if i + 2 < cs.len() && cs[i + 1] == '\\' && cs[i + 2] == 'u' {
                        let lo = hex4(&cs, i + 3)?;
                        if !(0xDC00..0xE000).contains(&lo) {
                            return None;
                        }
                        i += 6;
                        let cp = 0x10000 + ((v - 0xD800) << 10) + (lo - 0xDC00);
                        out.push(char::from_u32(cp)?);
                    } else {
                        return None;
                    }
                } else if (0xDC00..0xE000).contains(&v) {
                    return None;
                } else {
                    out.push(char::from_u32(v)?);
                }
            }
            _ => return None,
        }
        i += 1;
    }
    Some(out)
}

/// Scan a delimited form starting after the opening delimiter at char index
/// `i` (index into `cs`).  A backslash and the character after it stay
/// together; the first delimiter that is not the second half of such a pair
/// closes the form.  Returns (content pairs, index after closing delimiter).
fn scan_delimited(cs: &[(usize, char)], mut i: usize, delim: char) -> Option<(Vec<String>, usize)> {
    let mut units: Vec<String> = Vec::new();
    while i < cs.len() {
        let c = cs[i].1;
        if c == delim {
            return Some((units, i + 1));
        }
        if c == '\\' {
            let mut u = String::from('\\');
            if i + 1 < cs.len() {
                u.push(cs[i + 1].1);
                i += 2;
            } else {
                i += 1;
            }
            units.push(u);
        } else {
            units.push(c.to_string());
            i += 1;
        }
    }
    None
}

/// What the reference decides about a delimited form's content.
pub fn decode_raw(units: &[String]) -> String {
    let mut s = String::new();
    for u in units {
        if u == "\\'" {
            s.push('\'');
        } else {
            s.push_str(u);
        }
    }
    s
}

pub fn decode_literal(units: &[String]) -> Option<Value> {
    let mut s = String::new();
    for u in units {
        if u == "\\`" {
            s.push('`');
        } else {
            s.push_str(u);
        }
    }
    serde_json::from_str::<Value>(&s).ok()
}

pub fn decode_quoted(units: &[String]) -> Option<String> {
    let s: String = units.concat();
    json_string_decode(&s)
}

pub fn lex(src: &str) -> Result<Vec<(usize, Tok)>, LexErr> {
    lex_spans(src).map(|v| v.into_iter().map(|(p, _, t)| (p, t)).collect())
}

/// Tokens with byte start and byte end (exclusive).
pub fn lex_spans(src: &str) -> Result<Vec<(usize, usize, Tok)>, LexErr> {
    let cs: Vec<(usize, char)> = src.char_indices().collect();
    let mut out: Vec<(usize, Tok)> = Vec::new();
    let mut ends: Vec<usize> = Vec::new();
    let mut i = 0;
    while i < cs.len() {
        while ends.len() < out.len() {
            ends.push(cs[i].0);
        }
        let (pos, c) = cs[i];
        let next = cs.get(i + 1).map(|x| x.1);
        match c {
            ' ' | '\t' | '\n' | '\r' => {
                i += 1;
            }
            'a'..='z' | 'A'..='Z' | '_' => {
                let mut s = String::new();
                while i < cs.len() && (cs[i].1.is_ascii_alphanumeric() || cs[i].1 == '_') {
                    s.push(cs[i].1);
                    i += 1;
                }
                out.push((pos, Tok::Ident(s)));
            }
            '0'..='9' | '-' => {
                let neg = c == '-';
                let mut j = i;
                if neg {
                    j += 1;
                    match cs.get(j).map(|x| x.1) {
                        Some('1'..='9') => {}
                        _ => return err(pos, "'-' must be followed by 1-9"),
                    }
                }
                let mut v: i128 = 0;
                let mut nd = 0;
                while j < cs.len() && cs[j].1.is_ascii_digit() {
                    // saturating accumulation: leading zeros are harmless, huge values stay huge
                    v = (v * 10 + cs[j].1.to_digit(10).unwrap() as i128).min(i128::MAX / 100);
                    nd += 1;
                    j += 1;
                }
                if neg {
                    v = -v;
                }
                if v < i32::MIN as i128 || v > i32::MAX as i128 {
                    return err(pos, "number outside the signed 32-bit range");
                }
                out.push((pos, Tok::Num(v as i64)));
                i = j;
            }
            '.' => {
                out.push((pos, Tok::Dot));
                i += 1
            }
            '*' => {
                out.push((pos, Tok::Star));
                i += 1
            }
            '@' => {
                out.push((pos, Tok::At));
                i += 1
            }
            ']' => {
                out.push((pos, Tok::Rbracket));
                i += 1
            }
            '{' => {
                out.push((pos, Tok::Lbrace));
                i += 1
            }
            '}' => {
                out.push((pos, Tok::Rbrace));
                i += 1
            }
            '(' => {
                out.push((pos, Tok::Lparen));
                i += 1
            }
            ')' => {
                out.push((pos, Tok::Rparen));
                i += 1
            }
            ',' => {
                out.push((pos, Tok::Comma));
                i += 1
            }
            ':' => {
                out.push((pos, Tok::Colon));
                i += 1
            }
            '[' => match next {
                Some(']') => {
                    out.push((pos, Tok::Flatten));
                    i += 2
                }
                Some('?') => {
                    out.push((pos, Tok::Filter));
                    i += 2
                }
                _ => {
                    out.push((pos, Tok::Lbracket));
                    i += 1
                }
            },
            '|' => {
                if next == Some('|') {
                    out.push((pos, Tok::Or));
                    i += 2
                } else {
                    out.push((pos, Tok::Pipe));
                    i += 1
                }
            }
            '&' => {
                if next == Some('&') {
                    out.push((pos, Tok::And));
                    i += 2
                } else {
                    out.push((pos, Tok::Amp));
                    i += 1
                }
            }
            '=' => {
                if next == Some('=') {
                    out.push((pos, Tok::Eq));
                    i += 2
                } else {
                    return err(pos, "single '='");
                }
            }
            '<' => {
                if next == Some('=') {
                    out.push((pos, Tok::Lte));
                    i += 2
                } else {
                    out.push((pos, Tok::Lt));
                    i += 1
                }
            }
            '>' => {
                if next == Some('=') {
                    out.push((pos, Tok::Gte));
                    i += 2
                } else {
                    out.push((pos, Tok::Gt));
                    i += 1
                }
            }
            '!' => {
                if next == Some('=') {
                    out.push((pos, Tok::Ne));
                    i += 2
                } else {
                    out.push((pos, Tok::Not));
                    i += 1
                }
            }
            '"' => match scan_delimited(&cs, i + 1, '"') {
                None => return err(pos, "unclosed quoted identifier"),
                Some((units, j)) => match decode_quoted(&units) {
                    None => return err(pos, "bad quoted identifier"),
                    Some(s) => {
                        out.push((pos, Tok::Quoted(s)));
                        i = j;
                    }
                },
            },
            '\'' => match scan_delimited(&cs, i + 1, '\'') {
                None => return err(pos, "unclosed raw string"),
                Some((units, j)) => {
                    out.push((pos, Tok::Lit(Value::String(decode_raw(&units)))));
                    i = j;
                }
            },
            '`' => match scan_delimited(&cs, i + 1, '`') {
                None => return err(pos, "unclosed literal"),
                Some((units, j)) => match decode_literal(&units) {
                    None => return err(pos, "bad JSON literal"),
                    Some(v) => {
                        out.push((pos, Tok::Lit(v)));
                        i = j;
                    }
                },
            },
            _ => return err(pos, "invalid character"),
        }
    }
    while ends.len() < out.len() {
        ends.push(if i < cs.len() { cs[i].0 } else { src.len() });
    }
    Ok(out
        .into_iter()
        .zip(ends)
        .map(|((p, t), e)| (p, e, t))
        .collect())
}
