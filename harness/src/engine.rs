//! Sweeper plumbing: statistics, evidence files, known findings, replay files,
//! hang watchdog.
use serde_json::{json, Value};
use std::collections::BTreeMap;
use std::sync::atomic::{AtomicBool, AtomicU64, Ordering};
use std::sync::{Arc, Mutex};
use std::time::{Duration, Instant};

#[derive(Clone, Copy, Debug, PartialEq, Eq)]
pub enum Tier {
    Quick,
    Thorough,
}

impl Tier {
    pub fn name(&self) -> &'static str {
        match self {
            Tier::Quick => "quick",
            Tier::Thorough => "thorough",
        }
    }
    pub fn pick<T>(&self, q: T, t: T) -> T {
        match self {
            Tier::Quick => q,
            Tier::Thorough => t,
        }
    }
}

#[derive(Clone, Debug)]
pub struct Violation {
    /// narrow class predicate evaluated on the failing case (known-finding key)
    pub key: String,
    /// sub-check that found it; `replay` dispatches on it
    pub check: String,
    pub case: Value,
    pub expected: String,
    pub actual: String,
}

const MAX_VIOL: usize = 200;
const MAX_SAMPLES: usize = 16;

#[derive(Clone, Debug, Default)]
pub struct Stats {
    pub states: u64,
    pub transitions: u64,
    pub evaluations: u64,
    pub validated: u64,
    pub nontrivial: u64,
    pub outcomes: BTreeMap<String, u64>,
    pub counters: BTreeMap<String, u64>,
    pub samples: Vec<Value>,
    pub violations: Vec<Violation>,
    pub violation_count: u64,
    /// per-key counts (all violations, not only the stored ones)
    pub viol_keys: BTreeMap<String, u64>,
    pub capped: bool,
}

impl Stats {
    pub fn outcome(&mut self, class: &str) {
        if let Some(c) = self.outcomes.get_mut(class) {
            *c += 1;
        } else {
            self.outcomes.insert(class.to_string(), 1);
        }
    }
    pub fn count(&mut self, name: &str, by: u64) {
        if let Some(c) = self.counters.get_mut(name) {
            *c += by;
        } else {
            self.counters.insert(name.to_string(), by);
        }
    }
    pub fn sample(&mut self, v: impl FnOnce() -> Value) {
        if self.samples.len() < MAX_SAMPLES {
            self.samples.push(v());
        }
    }
    pub fn violate(&mut self, v: Violation) {
        self.violation_count += 1;
        let c = self.viol_keys.entry(v.key.clone()).or_insert(0);
        *c += 1;
        // keep the first few of every key so that no key is crowded out
        if *c <= 3 && self.violations.len() < MAX_VIOL {
            self.violations.push(v);
        }
    }
    pub fn merge(mut self, o: Stats) -> Stats {
        self.states += o.states;
        self.transitions += o.transitions;
        self.evaluations += o.evaluations;
        self.validated += o.validated;
        self.nontrivial += o.nontrivial;
        for (k, v) in o.outcomes {
            *self.outcomes.entry(k).or_insert(0) += v;
        }
        for (k, v) in o.counters {
            *self.counters.entry(k).or_insert(0) += v;
        }
        for s in o.samples {
            if self.samples.len() < MAX_SAMPLES {
                self.samples.push(s);
            }
        }
        self.violation_count += o.violation_count;
        for (k, v) in o.viol_keys {
            *self.viol_keys.entry(k).or_insert(0) += v;
        }
        for v in o.violations {
            let have = self.violations.iter().filter(|x| x.key == v.key).count();
            if have < 3 && self.violations.len() < MAX_VIOL {
                self.violations.push(v);
            }
        }
        self.capped |= o.capped;
        self
    }
}

pub fn verif_root() -> String {
    std::env::var("VERIF_ROOT").unwrap_or_else(|_| "/verif".to_string())
}

pub fn seed() -> i64 {
    std::env::var("VERIF_SEED")
        .ok()
        .and_then(|s| s.parse().ok())
        .unwrap_or(0)
}

#[derive(Clone, Debug)]
pub struct Known {
    pub property: String,
    pub key: String,
    pub what: String,
    pub status: String,
}

pub fn load_known() -> Vec<Known> {
    let p = format!("{}/known_findings.json", verif_root());
    let txt = match std::fs::read_to_string(&p) {
        Ok(t) => t,
        Err(_) => return vec![],
    };
    let v: Value = serde_json::from_str(&txt).expect("known_findings.json is not valid JSON");
    v.as_array()
        .expect("known_findings.json must be an array")
        .iter()
        .map(|e| Known {
            property: e["property"].as_str().unwrap_or("").to_string(),
            key: e["key"].as_str().unwrap_or("").to_string(),
            what: e["what"].as_str().unwrap_or("").to_string(),
            status: e["status"].as_str().unwrap_or("").to_string(),
        })
        .collect()
}

pub fn load_known_raw() -> Vec<Value> {
    let p = format!("{}/known_findings.json", verif_root());
    std::fs::read_to_string(&p)
        .ok()
        .and_then(|t| serde_json::from_str::<Value>(&t).ok())
        .and_then(|v| v.as_array().cloned())
        .unwrap_or_default()
}

fn digest(s: &str) -> String {
    // FNV-1a, enough for a file name
    let mut h: u64 = 0xcbf29ce484222325;
    for b in s.bytes() {
        h ^= b as u64;
        h = h.wrapping_mul(0x100000001b3);
    }
    format!("{:016x}", h)
}

pub struct Report {
    pub id: &'static str,
    pub tier: Tier,
    pub t0: Instant,
    pub stats: Stats,
    pub rule: String,
    pub bounds: Value,
    pub assumptions: Vec<String>,
    pub exhaustive: bool,
    /// vacuity guard: (description, holds)
    pub guards: Vec<(String, bool)>,
}

impl Report {
    pub fn new(id: &'static str, tier: Tier) -> Report {
        Report {
            id,
            tier,
            t0: Instant::now(),
            stats: Stats::default(),
            rule: String::new(),
            bounds: json!({}),
            assumptions: vec![],
            exhaustive: true,
            guards: vec![],
        }
    }

    pub fn guard(&mut self, what: &str, ok: bool) {
        self.guards.push((what.to_string(), ok));
    }

    /// Write evidence, print KNOWN-FINDING / VIOLATION lines, return exit code.
    pub fn finish(self) -> i32 {
        let root = verif_root();
        let known = load_known();
        let mut unlisted = 0u64;
        let mut known_hits: BTreeMap<String, (String, u64)> = BTreeMap::new();
        let mut lines = Vec::new();
        for (k, cnt) in &self.stats.viol_keys {
            if let Some(kn) = known
                .iter()
                .find(|x| x.property == self.id && &x.key == k && x.status == "known")
            {
                known_hits.insert(k.clone(), (kn.what.clone(), *cnt));
            } else {
                unlisted += *cnt;
            }
        }
        std::fs::create_dir_all(format!("{}/replays", root)).ok();
        for v in &self.stats.violations {
            if known_hits.contains_key(&v.key) {
                continue;
            }
            let body = json!({
                "property": self.id,
                "check": v.check,
                "key": v.key,
                "case": v.case,
                "expected": v.expected,
                "actual": v.actual,
            });
            let txt = serde_json::to_string_pretty(&body).unwrap();
            let path = format!("{}/replays/{}-{}.json", root, self.id, digest(&txt));
            std::fs::write(&path, &txt).ok();
            lines.push(format!(
                "VIOLATION property={} replay={}  key={} expected={} actual={}",
                self.id,
                path,
                v.key,
                trunc(&v.expected, 160),
                trunc(&v.actual, 160)
            ));
        }
        for (k, (what, cnt)) in &known_hits {
            println!(
                "KNOWN-FINDING: property={} {} [key={} witnesses={}]",
                self.id, what, k, cnt
            );
        }
        let mut guard_fail = false;
        for (g, ok) in &self.guards {
            if !ok {
                eprintln!("VACUITY-GUARD FAILED ({}): {}", self.id, g);
                guard_fail = true;
            }
        }
        let st = &self.stats;
        let wall = self.t0.elapsed().as_secs_f64();
        let ev = json!({
            "property_id": self.id,
            "tier": self.tier.name(),
            "seed": seed(),
            "level": "model_checking",
            "coverage": {
                "states": st.states,
                "transitions": st.transitions,
                "traces_validated_against_impl": st.validated,
                "evaluations": st.evaluations,
                "distinct_nontrivial": st.nontrivial,
                "rule": self.rule,
                "samples": st.samples,
                "exhaustive": self.exhaustive && !st.capped,
                "bounds": self.bounds,
                "distinct_outcomes": st.outcomes.len(),
                "outcome_histogram": st.outcomes,
                "counters": st.counters,
                "known_findings_reobserved": known_hits.iter().map(|(k,(_,c))| json!({"key":k,"witnesses":c})).collect::<Vec<_>>(),
                "vacuity_guards": self.guards.iter().map(|(g,ok)| json!({"guard":g,"ok":ok})).collect::<Vec<_>>(),
            },
            "assumptions": self.assumptions,
            "wall_s": wall,
            "violations": unlisted,
        });
        std::fs::create_dir_all(format!("{}/evidence", root)).ok();
        let path = format!("{}/evidence/{}.json", root, self.id);
        std::fs::write(&path, serde_json::to_string_pretty(&ev).unwrap()).expect("write evidence");
        println!(
            "{} {}: states={} transitions={} validated={} evaluations={} nontrivial={} outcomes={} wall={:.1}s violations={} known={}",
            self.id,
            self.tier.name(),
            st.states,
            st.transitions,
            st.validated,
            st.evaluations,
            st.nontrivial,
            st.outcomes.len(),
            wall,
            unlisted,
            known_hits.len()
        );
        for l in &lines {
            println!("{}", l);
        }
        if unlisted > 0 {
            if lines.is_empty() {
                println!("VIOLATION property={} replay={}/replays (see stored cases)", self.id, root);
            }
            return 1;
        }
        if guard_fail {
            return 2;
        }
        0
    }
}

pub fn trunc(s: &str, n: usize) -> String {
    if s.chars().count() <= n {
        s.replace('\n', "\\n")
    } else {
        let t: String = s.chars().take(n).collect();
        format!("{}...", t.replace('\n', "\\n"))
    }
}

// ---------------------------------------------------------------------------
// hang watchdog: workers bump a per-thread progress counter; if a busy worker
// makes no progress for `limit`, the case is reported as a hang.

pub struct Slot {
    pub seq: AtomicU64,
    pub busy: AtomicBool,
    pub text: Mutex<String>,
}

lazy_static::lazy_static! {
    static ref SLOTS: Mutex<Vec<Arc<Slot>>> = Mutex::new(Vec::new());
}

thread_local! {
    static MY_SLOT: Arc<Slot> = {
        let s = Arc::new(Slot { seq: AtomicU64::new(0), busy: AtomicBool::new(false), text: Mutex::new(String::new()) });
        SLOTS.lock().unwrap().push(s.clone());
        s
    };
}

/// Run one case under the watchdog.  `describe` is only called every 256th
/// case and whenever `always` is set (cheap enough for string sweeps).
pub fn watched<T>(text: &str, f: impl FnOnce() -> T) -> T {
    MY_SLOT.with(|s| {
        {
            let mut t = s.text.lock().unwrap();
            t.clear();
            t.push_str(text);
        }
        s.busy.store(true, Ordering::Relaxed);
        s.seq.fetch_add(1, Ordering::Relaxed);
        let r = f();
        s.busy.store(false, Ordering::Relaxed);
        r
    })
}

/// Start the watchdog thread.  On a hang it prints a VIOLATION line for
/// `id`, writes the replay file and exits the process with status 1.
pub fn start_watchdog(id: &'static str, limit: Duration) {
    std::thread::spawn(move || {
        let mut last: Vec<(u64, Instant)> = Vec::new();
        loop {
            std::thread::sleep(Duration::from_millis(1000));
            let slots = SLOTS.lock().unwrap().clone();
            last.resize(slots.len(), (u64::MAX, Instant::now()));
            for (i, s) in slots.iter().enumerate() {
                let q = s.seq.load(Ordering::Relaxed);
                let busy = s.busy.load(Ordering::Relaxed);
                if !busy || q != last[i].0 {
                    last[i] = (q, Instant::now());
                    continue;
                }
                if last[i].1.elapsed() > limit {
                    let text = s.text.lock().unwrap().clone();
                    let root = verif_root();
                    let body = json!({"property": id, "check": "hang", "key": "hang",
                        "case": {"kind":"hang", "text": text}, "expected": "returns in bounded time",
                        "actual": format!("no return after {:?}", limit)});
                    let txt = serde_json::to_string_pretty(&body).unwrap();
                    std::fs::create_dir_all(format!("{}/replays", root)).ok();
                    let path = format!("{}/replays/{}-{}.json", root, id, digest(&txt));
                    std::fs::write(&path, &txt).ok();
                    println!("VIOLATION property={} replay={}  key=hang case={}", id, path, trunc(&text, 200));
                    std::process::exit(1);
                }
            }
        }
    });
}

/// Run `f` over shards in parallel and merge the statistics.
pub fn par_sweep<S: Send + Sync>(shards: Vec<S>, f: impl Fn(&S, &mut Stats) + Sync + Send) -> Stats {
    use rayon::prelude::*;
    shards
        .par_iter()
        .map(|s| {
            let mut st = Stats::default();
            f(s, &mut st);
            st
        })
        .reduce(Stats::default, Stats::merge)
}

// ---------------------------------------------------------------------------
// crash handler: a stack overflow (or any fatal signal) in the subject while a
// watched case is running becomes a VIOLATION with a replay file instead of a
// silent abort of the harness.

static CRASH_ID: Mutex<&'static str> = Mutex::new("");

extern "C" fn on_fatal(sig: libc::c_int) {
    let id = CRASH_ID.try_lock().map(|g| *g).unwrap_or("C05");
    let text = MY_SLOT
        .try_with(|s| s.text.try_lock().map(|t| t.clone()).unwrap_or_default())
        .unwrap_or_default();
    let root = verif_root();
    let body = json!({"property": id, "check": "crash", "key": "crash/fatal-signal",
        "case": {"kind": "crash", "text": text, "signal": sig},
        "expected": "returns Ok or Err", "actual": format!("process received fatal signal {} (stack overflow / abort)", sig)});
    let txt = serde_json::to_string_pretty(&body).unwrap_or_default();
    let _ = std::fs::create_dir_all(format!("{}/replays", root));
    let path = format!("{}/replays/{}-{}.json", root, id, digest(&txt));
    let _ = std::fs::write(&path, &txt);
    let line = format!("VIOLATION property={} replay={}  key=crash/fatal-signal signal={} case={}\n", id, path, sig, trunc(&text, 200));
    unsafe {
        libc::write(1, line.as_ptr() as *const libc::c_void, line.len());
        libc::_exit(1);
    }
}

pub fn install_crash_handler(id: &'static str) {
    *CRASH_ID.lock().unwrap() = id;
    unsafe {
        let mut sa: libc::sigaction = std::mem::zeroed();
        sa.sa_sigaction = on_fatal as usize;
        sa.sa_flags = libc::SA_ONSTACK;
        libc::sigemptyset(&mut sa.sa_mask);
        for s in [libc::SIGSEGV, libc::SIGBUS, libc::SIGABRT, libc::SIGILL] {
            libc::sigaction(s, &sa, std::ptr::null_mut());
        }
    }
}
