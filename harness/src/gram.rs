//! R-gram: the published JMESPath ABNF transcribed at token level, plus a
//! generic incremental Earley recogniser.  Nothing here is Pratt-like.
use crate::rlex::Tok;

pub type Sym = u8;
// terminals
pub const ID: Sym = 0;
pub const QID: Sym = 1;
pub const NUM: Sym = 2;
pub const LIT: Sym = 3;
pub const DOT: Sym = 4;
pub const STAR: Sym = 5;
pub const FLATTEN: Sym = 6;
pub const AND: Sym = 7;
pub const OR: Sym = 8;
pub const PIPE: Sym = 9;
pub const FILTER: Sym = 10;
pub const LBRACKET: Sym = 11;
pub const RBRACKET: Sym = 12;
pub const COMMA: Sym = 13;
pub const COLON: Sym = 14;
pub const NOT: Sym = 15;
pub const CMP: Sym = 16;
pub const AT: Sym = 17;
pub const AMP: Sym = 18;
pub const LPAREN: Sym = 19;
pub const RPAREN: Sym = 20;
pub const LBRACE: Sym = 21;
pub const RBRACE: Sym = 22;
pub const NTERM: Sym = 23;
// nonterminals
const NT0: Sym = 32;
pub const START: Sym = NT0;
pub const E: Sym = NT0 + 1;
pub const SUBRHS: Sym = NT0 + 2;
pub const BRACKET: Sym = NT0 + 3;
pub const SLICE: Sym = NT0 + 4;
pub const MLIST: Sym = NT0 + 5;
pub const ELIST: Sym = NT0 + 6;
pub const MHASH: Sym = NT0 + 7;
pub const KVLIST: Sym = NT0 + 8;
pub const KV: Sym = NT0 + 9;
pub const FUNC: Sym = NT0 + 10;
pub const ARGS: Sym = NT0 + 11;
pub const ARG: Sym = NT0 + 12;
pub const PF: Sym = NT0 + 13;
pub const PROJ: Sym = NT0 + 14;
const NNT: usize = 15;

pub fn class(t: &Tok) -> Sym {
    match t {
        Tok::Ident(_) => ID,
        Tok::Quoted(_) => QID,
        Tok::Num(_) => NUM,
        Tok::Lit(_) => LIT,
        Tok::Dot => DOT,
        Tok::Star => STAR,
        Tok::Flatten => FLATTEN,
        Tok::And => AND,
        Tok::Or => OR,
        Tok::Pipe => PIPE,
        Tok::Filter => FILTER,
        Tok::Lbracket => LBRACKET,
        Tok::Rbracket => RBRACKET,
        Tok::Comma => COMMA,
        Tok::Colon => COLON,
        Tok::Not => NOT,
        Tok::Ne | Tok::Eq | Tok::Gt | Tok::Gte | Tok::Lt | Tok::Lte => CMP,
        Tok::At => AT,
        Tok::Amp => AMP,
        Tok::Lparen => LPAREN,
        Tok::Rparen => RPAREN,
        Tok::Lbrace => LBRACE,
        Tok::Rbrace => RBRACE,
    }
}

/// One extra production each; used only to *name* a known deviation, never to
/// decide the property.
#[derive(Clone, Copy, Debug, PartialEq, Eq, Default)]
pub struct Relax {
    /// expression =/ "&" expression ; sub-expression rhs =/ "&" expression
    pub expref_anywhere: bool,
    /// expression =/ "(" ... identifier ... ")" "(" [args] ")"
    pub paren_function_name: bool,
    /// expression =/ projection multi-select-list
    pub mlist_after_projection: bool,
    /// multi-select-list / args without separating commas
    pub missing_comma: bool,
    /// multi-select-list =/ "[" "]"
    pub empty_mlist: bool,
}

pub struct Grammar {
    pub rules: Vec<(Sym, Vec<Sym>)>,
    by_lhs: Vec<Vec<usize>>,
}

impl Grammar {
    pub fn new(rx: Relax) -> Grammar {
        let mut r: Vec<(Sym, Vec<Sym>)> = Vec::new();
        let mut add = |l: Sym, rhs: &[Sym]| r.push((l, rhs.to_vec()));
        add(START, &[E]);
        // sub-expression = expression "." ( identifier / multi-select-list / multi-select-hash / function-expression / "*" )
        add(E, &[E, DOT, SUBRHS]);
        for s in [ID, QID, MLIST, MHASH, FUNC, STAR] {
            add(SUBRHS, &[s]);
        }
        // index-expression = expression bracket-specifier / bracket-specifier
        add(E, &[E, BRACKET]);
        add(E, &[BRACKET]);
        add(BRACKET, &[LBRACKET, NUM, RBRACKET]);
        add(BRACKET, &[LBRACKET, STAR, RBRACKET]);
        add(BRACKET, &[LBRACKET, SLICE, RBRACKET]);
        add(BRACKET, &[FLATTEN]);
        add(BRACKET, &[FILTER, E, RBRACKET]);
        // slice-expression = [number] ":" [number] [ ":" [number] ]
        for a in [false, true] {
            for b in [false, true] {
                for c in 0..3 {
                    let mut v = Vec::new();
                    if a {
                        v.push(NUM)
                    }
                    v.push(COLON);
                    if b {
                        v.push(NUM)
                    }
                    if c >= 1 {
                        v.push(COLON)
                    }
                    if c == 2 {
                        v.push(NUM)
                    }
                    add(SLICE, &v);
                }
            }
        }
        add(E, &[E, CMP, E]);
        add(E, &[E, OR, E]);
        add(E, &[E, AND, E]);
        add(E, &[NOT, E]);
        add(E, &[LPAREN, E, RPAREN]);
        add(E, &[E, PIPE, E]);
        for s in [ID, QID, STAR, MLIST, MHASH, LIT, FUNC, AT] {
            add(E, &[s]);
        }
        add(MLIST, &[LBRACKET, ELIST, RBRACKET]);
        add(ELIST, &[E]);
        add(ELIST, &[ELIST, COMMA, E]);
        add(MHASH, &[LBRACE, KVLIST, RBRACE]);
        add(KVLIST, &[KV]);
        add(KVLIST, &[KVLIST, COMMA, KV]);
        add(KV, &[ID, COLON, E]);
        add(KV, &[QID, COLON, E]);
        add(FUNC, &[ID, LPAREN, RPAREN]);
        add(FUNC, &[ID, LPAREN, ARGS, RPAREN]);
        add(ARGS, &[ARG]);
        add(ARGS, &[ARGS, COMMA, ARG]);
        add(ARG, &[E]);
        add(ARG, &[AMP, E]);
        if rx.expref_anywhere {
            add(E, &[AMP, E]);
            add(SUBRHS, &[AMP, E]);
        }
        if rx.paren_function_name {
            add(PF, &[LPAREN, ID, RPAREN]);
            add(PF, &[LPAREN, QID, RPAREN]);
            add(PF, &[LPAREN, PF, RPAREN]);
            add(E, &[PF, LPAREN, RPAREN]);
            add(E, &[PF, LPAREN, ARGS, RPAREN]);
        }
        if rx.mlist_after_projection {
            add(PROJ, &[E, LBRACKET, STAR, RBRACKET]);
            add(PROJ, &[LBRACKET, STAR, RBRACKET]);
            add(PROJ, &[E, LBRACKET, SLICE, RBRACKET]);
            add(PROJ, &[LBRACKET, SLICE, RBRACKET]);
            add(PROJ, &[E, FLATTEN]);
            add(PROJ, &[FLATTEN]);
            add(PROJ, &[E, FILTER, E, RBRACKET]);
            add(PROJ, &[FILTER, E, RBRACKET]);
            add(PROJ, &[E, DOT, STAR]);
            add(PROJ, &[STAR]);
            add(E, &[PROJ, MLIST]);
        }
        if rx.missing_comma {
            add(ELIST, &[ELIST, E]);
            add(ARGS, &[ARGS, ARG]);
        }
        if rx.empty_mlist {
            add(MLIST, &[LBRACKET, RBRACKET]);
        }
        let mut by_lhs = vec![Vec::new(); NNT];
        for (i, (l, _)) in r.iter().enumerate() {
            by_lhs[(*l - NT0) as usize].push(i);
        }
        Grammar { rules: r, by_lhs }
    }
}

#[derive(Clone, Copy, PartialEq, Eq, Debug)]
struct Item {
    rule: u16,
    dot: u8,
    origin: u16,
}

/// Incremental Earley recogniser: `push` one token class at a time, `pop` to
/// backtrack.  The grammar has no empty productions, which keeps the
/// completer/predictor closure simple.
pub struct Earley<'g> {
    g: &'g Grammar,
    sets: Vec<Vec<Item>>,
}

impl<'g> Earley<'g> {
    pub fn new(g: &'g Grammar) -> Earley<'g> {
        let mut e = Earley {
            g,
            sets: vec![Vec::new()],
        };
        let mut s0 = Vec::new();
        for &ri in &g.by_lhs[(START - NT0) as usize] {
            s0.push(Item {
                rule: ri as u16,
                dot: 0,
                origin: 0,
            });
        }
        e.sets[0] = s0;
        e.close(0);
        e
    }

    fn close(&mut self, k: usize) {
        let mut i = 0;
        let mut predicted = [false; NNT];
        while i < self.sets[k].len() {
            let it = self.sets[k][i];
            let (lhs, rhs) = &self.g.rules[it.rule as usize];
            if (it.dot as usize) < rhs.len() {
                let s = rhs[it.dot as usize];
                if s >= NT0 {
                    let n = (s - NT0) as usize;
                    if !predicted[n] {
                        predicted[n] = true;
                        for &ri in &self.g.by_lhs[n] {
                            let ni = Item {
                                rule: ri as u16,
                                dot: 0,
                                origin: k as u16,
                            };
                            if !self.sets[k].contains(&ni) {
                                self.sets[k].push(ni);
                            }
                        }
                    }
                }
            } else {
                // completer
                let lhs = *lhs;
                let o = it.origin as usize;
                debug_assert!(o < k || rhs.is_empty());
                let mut adds = Vec::new();
                for p in &self.sets[o] {
                    let prhs = &self.g.rules[p.rule as usize].1;
                    if (p.dot as usize) < prhs.len() && prhs[p.dot as usize] == lhs {
                        adds.push(Item {
                            rule: p.rule,
                            dot: p.dot + 1,
                            origin: p.origin,
                        });
                    }
                }
                for ni in adds {
                    if !self.sets[k].contains(&ni) {
                        self.sets[k].push(ni);
                    }
                }
            }
            i += 1;
        }
    }

    /// Feed one terminal.  Returns true when the extended prefix is viable
    /// (some sentence starts with it).
    pub fn push(&mut self, t: Sym) -> bool {
        let k = self.sets.len() - 1;
        let mut ns = Vec::new();
        for it in &self.sets[k] {
            let rhs = &self.g.rules[it.rule as usize].1;
            if (it.dot as usize) < rhs.len() && rhs[it.dot as usize] == t {
                let ni = Item {
                    rule: it.rule,
                    dot: it.dot + 1,
                    origin: it.origin,
                };
                if !ns.contains(&ni) {
                    ns.push(ni);
                }
            }
        }
        let viable = !ns.is_empty();
        self.sets.push(ns);
        if viable {
            self.close(k + 1);
        }
        viable
    }

    pub fn pop(&mut self) {
        self.sets.pop();
    }

    pub fn depth(&self) -> usize {
        self.sets.len() - 1
    }

    pub fn accepts(&self) -> bool {
        let k = self.sets.len() - 1;
        self.sets[k].iter().any(|it| {
            let (lhs, rhs) = &self.g.rules[it.rule as usize];
            *lhs == START && it.origin == 0 && it.dot as usize == rhs.len()
        })
    }
}

pub fn recognise(g: &Grammar, toks: &[Sym]) -> bool {
    let mut e = Earley::new(g);
    for &t in toks {
        if !e.push(t) {
            return false;
        }
    }
    e.accepts()
}
