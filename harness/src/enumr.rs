//! Enumerators: document pools, token alphabets, sentence DFS over viable
//! prefixes (incremental Earley).
use crate::gram::{class, Earley, Grammar, Sym};
use crate::rlex::{lex, Tok};
use serde_json::{json, Value};

pub fn scalars() -> Vec<Value> {
    vec![
        json!(null),
        json!(true),
        json!(false),
        json!(0),
        json!(1),
        json!(-1),
        json!(1.5),
        json!(""),
        json!("a"),
        json!("b"),
    ]
}

/// fixed "collision-rich" documents: heterogeneous arrays, nested empties,
/// nulls inside arrays, arrays of arrays, objects of arrays ...
pub fn docs_core() -> Vec<Value> {
    vec![
        json!(null),
        json!(true),
        json!(false),
        json!(0),
        json!(1),
        json!(""),
        json!("a"),
        json!([]),
        json!([1]),
        json!([0, 1]),
        json!([1, 2, 3]),
        json!([null]),
        json!([null, 1]),
        json!(["a", "b"]),
        json!([[1], [2]]),
        json!([[1, 2], [3]]),
        json!([[]]),
        json!([[], [1]]),
        json!([[[1]], [2]]),
        json!([{"a": 1}, {"a": 2}]),
        json!([{"a": 1}, {"b": 2}]),
        json!([{"a": [1, 2]}, {"a": [3]}]),
        json!([{"a": {"b": 1}}, {"a": {"b": null}}, {"a": null}]),
        json!([true, false]),
        json!([1, "a", null, [2], {"a": 3}]),
        json!([0, "", false]),
        json!({}),
        json!({"a": 1}),
        json!({"a": null}),
        json!({"a": 1, "b": 2}),
        json!({"b": 1, "a": 2}),
        json!({"a": {"a": 1}}),
        json!({"a": {"b": 2}}),
        json!({"a": [1, 2], "b": [3]}),
        json!({"a": [{"a": 1}, {"a": 2, "b": 3}]}),
        json!({"a": {"a": {"a": 1}}}),
        json!({"a": "a", "b": "b"}),
        json!({"a": [], "b": {}}),
        json!({"a": [[1, 2], [3, 4]], "b": [[5]]}),
        json!({"a": [{"b": [1, 2]}, {"b": [3]}]}),
        json!({"a": true, "b": false}),
        json!({"a": 0, "b": ""}),
        json!({"a": [1, 0, -1], "b": 0}),
        json!({"a": {"b": [1, 2]}, "b": {"a": 3, "b": 4}}),
        json!({"a": [{"a": 0, "b": 1}, {"a": 1, "b": 0}, {"a": 1, "b": 1}]}),
        // blank (whitespace-only) strings are truthy; non-identifier and non-ASCII keys test key order
        json!({"a": " ", "b": "\u{a0}"}),
        json!([" ", "\t", "\n", ""]),
        json!({"b": 1, "a": 2, "B": 3, "_": 4, "é": 5, "aa": 6, "": 7, "a b": 8}),
        json!([{"a": [null, 1]}, {"b": 2}, {"a": null}, {"a": [[2], null]}]),
        // floats one ulp apart: ordering operators are exact
        json!({"a": 0.30000000000000004, "b": 0.3}),
        json!([0.3, 0.30000000000000004, 1.0000000000000002, 1.0]),
        // an integer against a float with the same integral part (both signs), and a float against the neighbouring
        // integers above 2^53: one numeric order across the representations
        json!({"a": 0, "b": -0.5}),
        json!({"a": -1, "b": -1.5}),
        json!({"a": 1.5, "b": 1}),
        json!({"a": 9007199254740993u64, "b": 9007199254740992.0}),
        json!([0, -0.5, -1, -1.5, 1.5, 1, -0.0, 0.0]),
    ]
}

/// Documents whose containers have a *medium* size (around 16, 32, 64 ... elements or members): heterogeneous
/// arrays with nulls, nested arrays and objects at every residue, arrays of objects, arrays of arrays of
/// varying length, objects whose keys arrive in scrambled order.  The dense pools stop at 5 elements / 8
/// members; a shortcut that engages at a capacity boundary (inline buffer, pre-sized vector, chunked loop,
/// small-map representation) first differs here.
pub fn medium_docs(sizes: &[usize]) -> Vec<Value> {
    let mut out = Vec::new();
    for &n in sizes {
        let het: Vec<Value> = (0..n)
            .map(|i| match i % 9 {
                0 => json!(i),
                1 => json!(null),
                2 => json!("a"),
                3 => json!([i, null, [i]]),
                4 => json!({"a": i, "b": null}),
                5 => json!({"a": [i, i + 1], "b": i}),
                6 => json!(i % 2 == 0),
                7 => json!([]),
                _ => json!({}),
            })
            .collect();
        let objs: Vec<Value> = (0..n).map(|i| json!({"a": i % 3, "b": [i, i + 1]})).collect();
        let arrs: Vec<Value> = (0..n)
            .map(|i| match i % 4 {
                0 => json!([]),
                1 => json!([i]),
                2 => json!([i, null, [i]]),
                _ => json!(null),
            })
            .collect();
        let mut m = serde_json::Map::new();
        for j in 0..n {
            let i = (j * 7 + 3) % n; // scrambled insertion order (7 is coprime to every size used below)
            let v = match i % 5 {
                0 => json!(i),
                1 => json!(null),
                2 => json!([i, [i]]),
                3 => json!({"a": i}),
                _ => json!("a"),
            };
            m.insert(format!("k{:03}", i), v);
        }
        m.insert("a".into(), json!([1, 2]));
        m.insert("b".into(), json!(0));
        out.push(Value::Array(het.clone()));
        out.push(Value::Array(objs.clone()));
        out.push(Value::Array(arrs));
        out.push(Value::Object(m.clone()));
        out.push(json!({"a": het, "b": m}));
        out.push(json!({"a": objs, "b": n}));
    }
    out
}

/// D(1,2): every value of depth <= 1 with arrays of length <= 2 and objects
/// over key subsets of {a,b}, over the scalar alphabet.
pub fn docs_d12() -> Vec<Value> {
    let sc = scalars();
    let mut out = sc.clone();
    out.push(json!([]));
    for x in &sc {
        out.push(json!([x]));
    }
    for x in &sc {
        for y in &sc {
            out.push(json!([x, y]));
        }
    }
    out.push(json!({}));
    for x in &sc {
        out.push(json!({ "a": x }));
        out.push(json!({ "b": x }));
    }
    for x in &sc {
        for y in &sc {
            out.push(json!({"a": x, "b": y}));
        }
    }
    out
}

/// reduced-scalar D(2,2)
pub fn docs_d22_reduced() -> Vec<Value> {
    let sc = vec![json!(null), json!(0), json!(1), json!("a")];
    let mut d1: Vec<Value> = sc.clone();
    d1.push(json!([]));
    for x in &sc {
        d1.push(json!([x]));
    }
    for x in &sc {
        for y in &sc {
            d1.push(json!([x, y]));
        }
    }
    d1.push(json!({}));
    for x in &sc {
        d1.push(json!({ "a": x }));
    }
    for x in &sc {
        for y in &sc {
            d1.push(json!({"a": x, "b": y}));
        }
    }
    let mut out = d1.clone();
    for x in &d1 {
        out.push(json!([x]));
        out.push(json!({ "a": x }));
    }
    for x in &d1 {
        for y in &d1 {
            out.push(json!([x, y]));
            out.push(json!({"a": x, "b": y}));
        }
    }
    out
}

pub fn dedup(v: Vec<Value>) -> Vec<Value> {
    let mut seen = std::collections::BTreeSet::new();
    let mut out = Vec::new();
    for x in v {
        let k = serde_json::to_string(&x).unwrap();
        if seen.insert(k) {
            out.push(x);
        }
    }
    out
}

/// documents whose neighbouring members differ only in the spelling or the last digit of a number (as scalars and
/// inside containers), member names that look like numbers / keywords, and member names that collide with
/// serde_json's private tokens
pub fn neighbour_docs() -> Vec<Value> {
    vec![
        json!([1, 1.0]), json!([1.0, 1]), json!([[1], [1.0]]), json!([[1.0], [1], [1.0]]), json!([{"id": 1}, {"id": 1.0}]), json!([{"id": 9007199254740992u64}, {"id": 9007199254740993u64}]),
        json!([[18446744073709551615u64], [18446744073709551614u64]]), json!([[1700000000000000001u64], [1700000000000000002u64]]), json!([0.3, 0.30000000000000004]), json!([[0.3], [0.30000000000000004]]), json!({"a": [1], "b": [1.0]}),
        json!([["a", 1], ["a", 1.0]]), json!([{"k": [1, 2]}, {"k": [1.0, 2]}, {"k": [1, 2.0]}]), json!([0, -0.0]), json!([[0], [-0.0]]), json!({"rows": [{"id": 1, "w": 2.0}, {"id": 1.0, "w": 2}]}),
        json!({"1": 1, "0": 0, "-7": 7, "007": 7, "2024": {"12": [31]}, "1.5": 1.5, "1e3": 1, "": 0, "true": true, "null": null, "false": false}),
        json!([{"1": "a"}, {"01": "b"}]), json!({"9223372036854775807": 1, "9223372036854775808": 2, "18446744073709551616": 3}),
        json!({"$serde_json::private::Number": "12"}), json!({"price": {"$serde_json::private::Number": "12"}, "qty": {"$serde_json::private::Number": "1e2"}}), json!([{"$serde_json::private::Number": "x"}, {"$serde_json::private::Number": 12}]),
        json!({"$serde_json::private::RawValue": "[1, 2]"}), json!({"$serde_json::private::Number": "12", "other": 1}),
    ]
}

pub fn pool_quick() -> Vec<Value> {
    dedup(docs_core())
}
pub fn pool_full() -> Vec<Value> {
    let mut v = docs_core();
    v.extend(docs_d12());
    dedup(v)
}

// ---------------------------------------------------------------------------

#[derive(Clone)]
pub struct Alphabet {
    pub texts: Vec<&'static str>,
    pub toks: Vec<Tok>,
    pub classes: Vec<Sym>,
}

impl Alphabet {
    pub fn new(texts: &[&'static str]) -> Alphabet {
        let mut toks = Vec::new();
        for t in texts {
            let l = lex(t).unwrap_or_else(|e| panic!("alphabet token {:?} does not lex: {:?}", t, e));
            assert_eq!(l.len(), 1, "alphabet entry {:?} must be one token", t);
            toks.push(l[0].1.clone());
        }
        let classes = toks.iter().map(class).collect();
        Alphabet {
            texts: texts.to_vec(),
            toks,
            classes,
        }
    }
    pub fn len(&self) -> usize {
        self.texts.len()
    }
    pub fn render(&self, seq: &[u8]) -> String {
        let mut s = String::new();
        for (i, &t) in seq.iter().enumerate() {
            if i > 0 {
                s.push(' ');
            }
            s.push_str(self.texts[t as usize]);
        }
        s
    }
}

/// T22: one representative per token class that matters for acceptance
pub fn t22() -> Alphabet {
    Alphabet::new(&[
        "a", "\"q\"", "1", "`1`", ".", "*", "[]", "[?", "[", "]", ",", ":", "!", "@", "&", "(", ")",
        "{", "}", "||", "|", "==",
    ])
}

/// T32: two identifiers, more numbers, both literal forms, all comparators,
/// both boolean operators
pub fn t32() -> Alphabet {
    Alphabet::new(&[
        "a", "b", "\"q\"", "1", "0", "-1", "`1`", "'r'", ".", "*", "[]", "[?", "[", "]", ",", ":",
        "!", "@", "&", "(", ")", "{", "}", "||", "&&", "|", "==", "!=", "<", "<=", ">", ">=",
    ])
}

/// core-form alphabet for C01: identifiers {a,b}, numbers {0,1,-1}, literals
/// {`1`,`null`,'a'}, no calls (no parentheses-as-call possible without names
/// that are functions: `a(` is an unknown function, kept out by leaving "("
/// for grouping only -- sentences containing a call are skipped by C01)
pub fn t_core() -> Alphabet {
    Alphabet::new(&[
        "a", "b", "0", "1", "-1", "`1`", "`null`", "'a'", ".", "*", "[]", "[?", "[", "]", ",", ":",
        "!", "@", "(", ")", "{", "}", "||", "&&", "|", "==", "!=", "<",
    ])
}

/// DFS over the viable prefixes of `alpha` up to `max_len` tokens starting
/// from `prefix`; calls `on_sentence` for every sentence (token index
/// sequence).  Returns (prefix-tree nodes visited, token extensions tried).
pub fn sentences(
    g: &Grammar,
    alpha: &Alphabet,
    prefix: &[u8],
    max_len: usize,
    on_sentence: &mut dyn FnMut(&[u8]),
) -> (u64, u64) {
    let mut e = Earley::new(g);
    let mut seq: Vec<u8> = Vec::new();
    for &t in prefix {
        if !e.push(alpha.classes[t as usize]) {
            return (0, prefix.len() as u64);
        }
        seq.push(t);
    }
    let mut nodes = 0u64;
    let mut edges = 0u64;
    fn rec(
        e: &mut Earley,
        alpha: &Alphabet,
        seq: &mut Vec<u8>,
        max_len: usize,
        on: &mut dyn FnMut(&[u8]),
        nodes: &mut u64,
        edges: &mut u64,
    ) {
        *nodes += 1;
        if e.accepts() {
            on(seq);
        }
        if seq.len() >= max_len {
            return;
        }
        for t in 0..alpha.len() {
            *edges += 1;
            if e.push(alpha.classes[t]) {
                seq.push(t as u8);
                rec(e, alpha, seq, max_len, on, nodes, edges);
                seq.pop();
            }
            e.pop();
        }
    }
    rec(&mut e, alpha, &mut seq, max_len, on_sentence, &mut nodes, &mut edges);
    (nodes, edges)
}

/// all prefixes of length `k` (shards for the parallel sweeps)
pub fn shards(alpha_len: usize, k: usize) -> Vec<Vec<u8>> {
    let mut out: Vec<Vec<u8>> = vec![vec![]];
    for _ in 0..k {
        let mut next = Vec::new();
        for p in &out {
            for t in 0..alpha_len {
                let mut q = p.clone();
                q.push(t as u8);
                next.push(q);
            }
        }
        out = next;
    }
    out
}

/// dedup by JSON text (keeps 1 and 1.0 apart)
pub fn dedup_text(v: Vec<Value>) -> Vec<Value> {
    dedup(v)
}
