//! R-parse: reference parser driven by the weak order stated in C04
//! (pipe < or < and < comparison < flatten < wildcard/filter < dot < not <
//! bracket < call), producing the tree vocabulary of the public AST.
//! Own token type (rlex), own node type; acceptance is cross-checked against
//! the Earley recogniser on every enumerated sequence.
use crate::rlex::{lex_spans, Tok};
use serde_json::Value;

#[derive(Clone, Debug, PartialEq)]
pub enum Via {
    Dot,
    Pipe,
    Bracket,
}

#[derive(Clone, Debug, PartialEq)]
pub struct N {
    pub k: K,
    /// token span [s, e)
    pub s: usize,
    pub e: usize,
}

#[derive(Clone, Debug, PartialEq)]
pub enum K {
    Identity,
    Field(String),
    Index(i64),
    Literal(Value),
    Slice(Option<i64>, Option<i64>, i64),
    Subexpr(Box<N>, Box<N>, Via),
    Projection(Box<N>, Box<N>),
    Flatten(Box<N>),
    ObjectValues(Box<N>),
    Condition(Box<N>, Box<N>),
    Or(Box<N>, Box<N>),
    And(Box<N>, Box<N>),
    Not(Box<N>),
    Cmp(&'static str, Box<N>, Box<N>),
    MultiList(Vec<N>),
    MultiHash(Vec<(String, N)>),
    /// name, args, token index of '('
    Function(String, Vec<N>, usize),
    Expref(Box<N>),
}

/// How the single "wildcard/filter" level of C04 is linearised.
#[derive(Clone, Copy, Debug, PartialEq, Eq)]
pub enum Lin {
    FilterAbove,
    Same,
    FilterBelow,
}

#[derive(Clone, Copy, Debug)]
pub struct Opts {
    pub lin: Lin,
    /// `a.[b][0]`: the multi-select after a dot is a complete right-hand side
    /// (true) or the start of a bracket-level chain (false).
    pub mlist_unit: bool,
    pub relax: crate::gram::Relax,
}

impl Default for Opts {
    fn default() -> Self {
        Opts {
            lin: Lin::FilterAbove,
            mlist_unit: true,
            relax: Default::default(),
        }
    }
}

#[derive(Clone, Debug, PartialEq)]
pub struct PErr {
    /// token index at which the parse failed (tokens.len() = end of input)
    pub at: usize,
    pub what: &'static str,
}

const L_PIPE: u32 = 10;
const L_OR: u32 = 20;
const L_AND: u32 = 30;
const L_CMP: u32 = 40;
const L_FLATTEN: u32 = 50;
const L_DOT: u32 = 70;
const L_NOT: u32 = 80;
const L_BRACKET: u32 = 90;
const L_CALL: u32 = 100;

pub struct Parser<'a> {
    toks: &'a [Tok],
    i: usize,
    o: Opts,
}

type R<T> = Result<T, PErr>;

fn cmp_name(t: &Tok) -> Option<&'static str> {
    Some(match t {
        Tok::Eq => "==",
        Tok::Ne => "!=",
        Tok::Lt => "<",
        Tok::Lte => "<=",
        Tok::Gt => ">",
        Tok::Gte => ">=",
        _ => return None,
    })
}

impl<'a> Parser<'a> {
    pub fn new(toks: &'a [Tok], o: Opts) -> Self {
        Parser { toks, i: 0, o }
    }
    fn l_star(&self) -> u32 {
        60
    }
    fn l_filter(&self) -> u32 {
        match self.o.lin {
            Lin::FilterAbove => 62,
            Lin::Same => 60,
            Lin::FilterBelow => 58,
        }
    }
    fn peek(&self) -> Option<&Tok> {
        self.toks.get(self.i)
    }
    fn peek_at(&self, k: usize) -> Option<&Tok> {
        self.toks.get(self.i + k)
    }
    fn e<T>(&self, what: &'static str) -> R<T> {
        Err(PErr { at: self.i, what })
    }
    fn expect(&mut self, t: Tok, what: &'static str) -> R<()> {
        if self.peek() == Some(&t) {
            self.i += 1;
            Ok(())
        } else {
            self.e(what)
        }
    }
    fn mk(&self, k: K, s: usize) -> N {
        N { k, s, e: self.i }
    }
    fn ident(&self, s: usize) -> N {
        N {
            k: K::Identity,
            s,
            e: s,
        }
    }

    /// level of a token in infix position; 0 = not an infix operator
    fn infix_level(&self, t: Option<&Tok>) -> u32 {
        match t {
            Some(Tok::Pipe) => L_PIPE,
            Some(Tok::Or) => L_OR,
            Some(Tok::And) => L_AND,
            Some(Tok::Eq | Tok::Ne | Tok::Lt | Tok::Lte | Tok::Gt | Tok::Gte) => L_CMP,
            Some(Tok::Flatten) => L_FLATTEN,
            Some(Tok::Filter) => self.l_filter(),
            Some(Tok::Dot) => L_DOT,
            Some(Tok::Lbracket) => L_BRACKET,
            Some(Tok::Lparen) => L_CALL,
            _ => 0,
        }
    }

    pub fn parse_all(&mut self) -> R<N> {
        let n = self.expr(0)?;
        if self.i != self.toks.len() {
            return self.e("trailing tokens");
        }
        Ok(n)
    }

    fn expr(&mut self, min: u32) -> R<N> {
        let mut left = self.prefix()?;
        loop {
            let lvl = self.infix_level(self.peek());
            if lvl <= min {
                break;
            }
            left = self.infix(left)?;
        }
        Ok(left)
    }

    fn prefix(&mut self) -> R<N> {
        let s = self.i;
        let t = match self.peek() {
            None => return self.e("unexpected end"),
            Some(t) => t.clone(),
        };
        self.i += 1;
        match t {
            Tok::At => Ok(self.mk(K::Identity, s)),
            Tok::Ident(n) => Ok(self.mk(K::Field(n), s)),
            Tok::Quoted(n) => {
                if self.peek() == Some(&Tok::Lparen) {
                    return self.e("quoted identifier as function name");
                }
                Ok(self.mk(K::Field(n), s))
            }
            Tok::Star => {
                let id = self.ident(s);
                self.wildcard_values(id, s)
            }
            Tok::Lit(v) => Ok(self.mk(K::Literal(v), s)),
            Tok::Lbracket => match (self.peek(), self.peek_at(1)) {
                (Some(Tok::Num(_)), _) | (Some(Tok::Colon), _) => self.index_or_slice(s),
                (Some(Tok::Star), Some(Tok::Rbracket)) => {
                    self.i += 1;
                    let id = self.ident(s);
                    self.wildcard_index(id, s)
                }
                _ => {
                    let els = self.list(Tok::Rbracket, false)?;
                    Ok(self.mk(K::MultiList(els), s))
                }
            },
            Tok::Flatten => {
                let id = self.ident(s);
                self.flatten(id, s)
            }
            Tok::Lbrace => {
                let mut kvs = Vec::new();
                loop {
                    let key = match self.peek() {
                        Some(Tok::Ident(k)) | Some(Tok::Quoted(k)) => k.clone(),
                        _ => return self.e("expected key"),
                    };
                    self.i += 1;
                    self.expect(Tok::Colon, "expected ':'")?;
                    let v = self.expr(0)?;
                    kvs.push((key, v));
                    match self.peek() {
                        Some(Tok::Rbrace) => {
                            self.i += 1;
                            break;
                        }
                        Some(Tok::Comma) => {
                            self.i += 1;
                        }
                        _ => return self.e("expected '}' or ','"),
                    }
                }
                Ok(self.mk(K::MultiHash(kvs), s))
            }
            Tok::Amp if self.o.relax.expref_anywhere => {
                let x = self.expr(0)?;
                Ok(self.mk(K::Expref(Box::new(x)), s))
            }
            Tok::Not => {
                let x = self.expr(L_NOT)?;
                Ok(self.mk(K::Not(Box::new(x)), s))
            }
            Tok::Filter => {
                let id = self.ident(s);
                self.filter(id, s)
            }
            Tok::Lparen => {
                let inner = self.expr(0)?;
                self.expect(Tok::Rparen, "expected ')'")?;
                Ok(N {
                    k: inner.k,
                    s,
                    e: self.i,
                })
            }
            _ => {
                self.i -= 1;
                self.e("token cannot start an expression")
            }
        }
    }

    fn infix(&mut self, left: N) -> R<N> {
        let s = left.s;
        let opi = self.i;
        let t = self.peek().cloned().unwrap();
        self.i += 1;
        match t {
            Tok::Dot => {
                if self.peek() == Some(&Tok::Star) {
                    self.i += 1;
                    return self.wildcard_values(left, s);
                }
                let rhs = self.dot_rhs(L_DOT)?;
                Ok(self.mk(K::Subexpr(Box::new(left), Box::new(rhs), Via::Dot), s))
            }
            Tok::Lbracket => match self.peek() {
                Some(Tok::Num(_)) | Some(Tok::Colon) => {
                    let rhs = self.index_or_slice(opi)?;
                    Ok(self.mk(
                        K::Subexpr(Box::new(left), Box::new(rhs), Via::Bracket),
                        s,
                    ))
                }
                Some(Tok::Star) => {
                    self.i += 1;
                    self.wildcard_index(left, s)
                }
                _ => self.e("expected number, ':' or '*'"),
            },
            Tok::Or => {
                let r = self.expr(L_OR)?;
                Ok(self.mk(K::Or(Box::new(left), Box::new(r)), s))
            }
            Tok::And => {
                let r = self.expr(L_AND)?;
                Ok(self.mk(K::And(Box::new(left), Box::new(r)), s))
            }
            Tok::Pipe => {
                let r = self.expr(L_PIPE)?;
                Ok(self.mk(K::Subexpr(Box::new(left), Box::new(r), Via::Pipe), s))
            }
            Tok::Lparen => {
                let bare = left.e == left.s + 1 && matches!(self.toks[left.s], Tok::Ident(_));
                let name = match (&left.k, bare || self.o.relax.paren_function_name) {
                    (K::Field(n), true) => n.clone(),
                    _ => {
                        self.i -= 1;
                        return self.e("invalid function name");
                    }
                };
                let args = self.list(Tok::Rparen, true)?;
                Ok(self.mk(K::Function(name, args, opi), s))
            }
            Tok::Flatten => self.flatten(left, s),
            Tok::Filter => self.filter(left, s),
            ref c if cmp_name(c).is_some() => {
                let r = self.expr(L_CMP)?;
                Ok(self.mk(
                    K::Cmp(cmp_name(c).unwrap(), Box::new(left), Box::new(r)),
                    s,
                ))
            }
            _ => {
                self.i -= 1;
                self.e("not an infix token")
            }
        }
    }

    /// elements of a multi-select list or the arguments of a call
    fn list(&mut self, closing: Tok, is_args: bool) -> R<Vec<N>> {
        let mut v = Vec::new();
        if self.peek() == Some(&closing) {
            if is_args || self.o.relax.empty_mlist {
                self.i += 1;
                return Ok(v);
            }
            return self.e("empty multi-select list");
        }
        loop {
            if is_args && self.peek() == Some(&Tok::Amp) {
                let s = self.i;
                self.i += 1;
                let x = self.expr(0)?;
                v.push(self.mk(K::Expref(Box::new(x)), s));
            } else {
                v.push(self.expr(0)?);
            }
            match self.peek() {
                Some(t) if *t == closing => {
                    self.i += 1;
                    return Ok(v);
                }
                Some(Tok::Comma) => {
                    self.i += 1;
                    if self.peek() == Some(&closing) {
                        return self.e("closing token after ','");
                    }
                }
                Some(_) if self.o.relax.missing_comma => {}
                _ => return self.e("expected ',' or closing token"),
            }
        }
    }

    fn dot_rhs(&mut self, level: u32) -> R<N> {
        match self.peek() {
            Some(Tok::Lbracket) => {
                let s = self.i;
                self.i += 1;
                let els = self.list(Tok::Rbracket, false)?;
                let mut left = self.mk(K::MultiList(els), s);
                if !self.o.mlist_unit {
                    loop {
                        let lvl = self.infix_level(self.peek());
                        if lvl <= level {
                            break;
                        }
                        left = self.infix(left)?;
                    }
                }
                Ok(left)
            }
            Some(Tok::Ident(_)) | Some(Tok::Quoted(_)) | Some(Tok::Star) | Some(Tok::Lbrace) => {
                self.expr(level)
            }
            Some(Tok::Amp) if self.o.relax.expref_anywhere => self.expr(level),
            _ => self.e("expected identifier, '*', '{' or '[' after '.'"),
        }
    }

    fn projection_rhs(&mut self, level: u32) -> R<N> {
        match self.peek() {
            Some(Tok::Dot) => {
                self.i += 1;
                self.dot_rhs(level)
            }
            Some(Tok::Lbracket) => {
                let ok = matches!(
                    (self.peek_at(1), self.peek_at(2)),
                    (Some(Tok::Num(_)), _) | (Some(Tok::Colon), _) | (Some(Tok::Star), Some(Tok::Rbracket))
                );
                if !ok && !self.o.relax.mlist_after_projection {
                    self.i += 1;
                    return self.e("multi-select list cannot follow a projection");
                }
                self.expr(level)
            }
            Some(Tok::Filter) => self.expr(level),
            t => {
                let lvl = self.infix_level(t);
                let is_other_op = matches!(t, Some(Tok::Star) | Some(Tok::Not) | Some(Tok::Lbrace) | Some(Tok::Lparen));
                if lvl <= L_FLATTEN && !is_other_op {
                    Ok(self.ident(self.i))
                } else {
                    self.e("expected '.', '[' or '[?' after a projection")
                }
            }
        }
    }

    fn wildcard_values(&mut self, lhs: N, s: usize) -> R<N> {
        let ov_e = self.i;
        let rhs = self.projection_rhs(self.l_star())?;
        let ov = N {
            k: K::ObjectValues(Box::new(lhs)),
            s,
            e: ov_e,
        };
        Ok(self.mk(K::Projection(Box::new(ov), Box::new(rhs)), s))
    }

    fn wildcard_index(&mut self, lhs: N, s: usize) -> R<N> {
        self.expect(Tok::Rbracket, "expected ']' after '*'")?;
        let rhs = self.projection_rhs(self.l_star())?;
        Ok(self.mk(K::Projection(Box::new(lhs), Box::new(rhs)), s))
    }

    fn flatten(&mut self, lhs: N, s: usize) -> R<N> {
        let fe = self.i;
        let rhs = self.projection_rhs(L_FLATTEN)?;
        let f = N {
            k: K::Flatten(Box::new(lhs)),
            s,
            e: fe,
        };
        Ok(self.mk(K::Projection(Box::new(f), Box::new(rhs)), s))
    }

    fn filter(&mut self, lhs: N, s: usize) -> R<N> {
        let ps = self.i;
        let pred = self.expr(0)?;
        self.expect(Tok::Rbracket, "expected ']' to close filter")?;
        let then = self.projection_rhs(self.l_filter())?;
        let cond = N {
            k: K::Condition(Box::new(pred), Box::new(then)),
            s: ps,
            e: self.i,
        };
        Ok(self.mk(K::Projection(Box::new(lhs), Box::new(cond)), s))
    }

    /// called with '[' consumed; `open` = token index of '['
    fn index_or_slice(&mut self, open: usize) -> R<N> {
        let mut parts: [Option<i64>; 3] = [None, None, None];
        let mut pos = 0;
        loop {
            match self.peek().cloned() {
                Some(Tok::Num(v)) => {
                    self.i += 1;
                    parts[pos] = Some(v);
                    match self.peek() {
                        Some(Tok::Colon) | Some(Tok::Rbracket) => {}
                        _ => return self.e("expected ':' or ']'"),
                    }
                }
                Some(Tok::Rbracket) => {
                    self.i += 1;
                    break;
                }
                Some(Tok::Colon) => {
                    if pos >= 2 {
                        return self.e("too many colons");
                    }
                    self.i += 1;
                    pos += 1;
                }
                _ => return self.e("expected number, ':' or ']'"),
            }
        }
        if pos == 0 {
            match parts[0] {
                Some(v) => Ok(self.mk(K::Index(v), open)),
                None => self.e("empty index"),
            }
        } else {
            let sl = self.mk(K::Slice(parts[0], parts[1], parts[2].unwrap_or(1)), open);
            let rhs = self.projection_rhs(self.l_star())?;
            Ok(self.mk(K::Projection(Box::new(sl), Box::new(rhs)), open))
        }
    }
}

pub struct Parsed {
    pub tree: N,
    /// (byte start, byte end, token)
    pub toks: Vec<(usize, usize, Tok)>,
}

#[derive(Debug, Clone, PartialEq)]
pub enum RErrP {
    Lex(usize),
    /// byte offset of the offending token (or end of input)
    Parse(usize),
}

pub fn parse_with(src: &str, o: Opts) -> Result<Parsed, RErrP> {
    let toks = lex_spans(src).map_err(|e| RErrP::Lex(e.pos))?;
    let tv: Vec<Tok> = toks.iter().map(|x| x.2.clone()).collect();
    let mut p = Parser::new(&tv, o);
    match p.parse_all() {
        Ok(tree) => Ok(Parsed { tree, toks }),
        Err(e) => Err(RErrP::Parse(
            toks.get(e.at).map(|t| t.0).unwrap_or(src.len()),
        )),
    }
}

pub fn parse(src: &str) -> Result<Parsed, RErrP> {
    parse_with(src, Opts::default())
}

pub fn parse_tokens(toks: &[Tok], o: Opts) -> Result<N, PErr> {
    Parser::new(toks, o).parse_all()
}

// ---------------------------------------------------------------------------
// canonical S-expression (offsets erased) -- the common form in which the
// reference tree and the implementation's public AST are compared

pub fn json_canon(v: &Value) -> String {
    serde_json::to_string(v).unwrap()
}

pub fn sexp(n: &N) -> String {
    let mut s = String::new();
    sexp_into(n, &mut s);
    s
}

fn opt(v: &Option<i64>) -> String {
    match v {
        Some(x) => x.to_string(),
        None => "_".into(),
    }
}

fn sexp_into(n: &N, out: &mut String) {
    match &n.k {
        K::Identity => out.push('@'),
        K::Field(f) => {
            out.push_str(&format!("(field {:?})", f));
        }
        K::Index(i) => out.push_str(&format!("(index {})", i)),
        K::Literal(v) => out.push_str(&format!("(lit {})", json_canon(v))),
        K::Slice(a, b, c) => out.push_str(&format!("(slice {} {} {})", opt(a), opt(b), c)),
        K::Subexpr(l, r, _) => two("sub", l, r, out),
        K::Projection(l, r) => two("proj", l, r, out),
        K::Flatten(x) => one("flat", x, out),
        K::ObjectValues(x) => one("vals", x, out),
        K::Condition(p, t) => two("cond", p, t, out),
        K::Or(l, r) => two("or", l, r, out),
        K::And(l, r) => two("and", l, r, out),
        K::Not(x) => one("not", x, out),
        K::Cmp(op, l, r) => two(&format!("cmp{}", op), l, r, out),
        K::MultiList(v) => {
            out.push_str("(list");
            for x in v {
                out.push(' ');
                sexp_into(x, out);
            }
            out.push(')');
        }
        K::MultiHash(v) => {
            out.push_str("(hash");
            for (k, x) in v {
                out.push_str(&format!(" ({:?} ", k));
                sexp_into(x, out);
                out.push(')');
            }
            out.push(')');
        }
        K::Function(name, args, _) => {
            out.push_str(&format!("(call {}", name));
            for x in args {
                out.push(' ');
                sexp_into(x, out);
            }
            out.push(')');
        }
        K::Expref(x) => one("expref", x, out),
    }
}

fn one(tag: &str, x: &N, out: &mut String) {
    out.push('(');
    out.push_str(tag);
    out.push(' ');
    sexp_into(x, out);
    out.push(')');
}
fn two(tag: &str, l: &N, r: &N, out: &mut String) {
    out.push('(');
    out.push_str(tag);
    out.push(' ');
    sexp_into(l, out);
    out.push(' ');
    sexp_into(r, out);
    out.push(')');
}

// ---------------------------------------------------------------------------
// implied fully parenthesised form

/// Collect token spans that may be wrapped in parentheses without ending a
/// projection: operands of binary/prefix operators, bases of postfix chains,
/// elements, values, arguments, predicates, expref bodies.
fn wrap_spans(n: &N, chain: bool, out: &mut Vec<(usize, usize)>) {
    // `chain` = this node sits on the spine of a dot / projection right-hand
    // side, where the grammar admits no parentheses.
    let mut operand = |x: &N, out: &mut Vec<(usize, usize)>| {
        if x.e > x.s {
            out.push((x.s, x.e));
        }
        wrap_spans(x, false, out);
    };
    match &n.k {
        K::Identity | K::Field(_) | K::Index(_) | K::Literal(_) | K::Slice(..) => {}
        K::Subexpr(l, r, via) => {
            if chain {
                wrap_spans(l, true, out);
            } else {
                operand(l, out);
            }
            match via {
                Via::Pipe => operand(r, out),
                _ => wrap_spans(r, true, out),
            }
        }
        K::Projection(l, r) => {
            // the operand under the projection former
            let base: &N = match &l.k {
                K::Flatten(x) | K::ObjectValues(x) => x,
                _ => l,
            };
            if matches!(base.k, K::Slice(..)) {
                // prefix slice: nothing to wrap
            } else if chain {
                wrap_spans(base, true, out);
            } else {
                operand(base, out);
            }
            wrap_spans(r, true, out);
        }
        K::Flatten(x) | K::ObjectValues(x) => {
            if chain {
                wrap_spans(x, true, out)
            } else {
                operand(x, out)
            }
        }
        K::Condition(p, t) => {
            operand(p, out);
            wrap_spans(t, true, out);
        }
        K::Or(l, r) | K::And(l, r) | K::Cmp(_, l, r) => {
            operand(l, out);
            operand(r, out);
        }
        K::Not(x) | K::Expref(x) => operand(x, out),
        K::MultiList(v) => {
            for x in v {
                operand(x, out)
            }
        }
        K::MultiHash(v) => {
            for (_, x) in v {
                operand(x, out)
            }
        }
        K::Function(_, args, _) => {
            for x in args {
                match &x.k {
                    K::Expref(b) => operand(b, out),
                    _ => operand(x, out),
                }
            }
        }
    }
}

/// The implied fully parenthesised form of a parsed sentence.
pub fn full_paren(src: &str, p: &Parsed) -> String {
    let mut spans = Vec::new();
    if p.tree.e > p.tree.s {
        spans.push((p.tree.s, p.tree.e));
    }
    wrap_spans(&p.tree, false, &mut spans);
    let n = p.toks.len();
    let mut open = vec![0usize; n + 1];
    let mut close = vec![0usize; n + 1];
    for (s, e) in spans {
        open[s] += 1;
        close[e - 1] += 1;
    }
    let mut out = String::new();
    for (i, (bs, be, _)) in p.toks.iter().enumerate() {
        for _ in 0..open[i] {
            out.push('(');
        }
        out.push_str(&src[*bs..*be]);
        for _ in 0..close[i] {
            out.push(')');
        }
        out.push(' ');
    }
    out.pop();
    out
}
