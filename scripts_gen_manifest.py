#!/usr/bin/env python3
# Regenerates MANIFEST.json from the table below (keeps it valid at all times).
import json, sys
props=[json.loads(l) for l in open('/verif/properties.jsonl')]
titles={p['id']:p['title'] for p in props}
C={
 "C01":("bounded exhaustive differential model checking: every grammar sentence (viable-prefix DFS, incremental Earley) and composed expression x document pool, implementation vs reference interpreter","5 C01",
        "Every sentence over the core token alphabet up to the length bound and every composed expression E1/E2 is searched on every pool document by the real library and by an independent reference interpreter (bound to the compliance fixtures at start); a coverage statement over the bounded product expressions x documents, which the fixed fixtures cannot give.",
        "reference semantics = DESIGN Appendix A; documents limited to the pool; sentences to the stated length"),
 "C02":("bounded exhaustive enumeration of well-typed argument tuples per builtin against reference builtins (R-fn), incl. >20-element arrays with bounded key deviations and a recording custom function for expref evaluation","5 C02",
        "All argument tuples over the bounded domains for each of the 26 builtins, at top level (permissive R-fn oracle) and nested in five contexts; stability is made observable by index tags / 1 vs 1.0 spellings, arrays above the 20-element algorithm switch are covered by a deviation bound.",
        "domains bounded as stated in evidence; ties of max/min permissive; to_number only on clear strings"),
 "C03":("exhaustive enumeration of all token sequences / character strings up to a bound, membership decided by an Earley recogniser over the transcribed ABNF","5 C03",
        "compile is run on every token sequence over 22 token classes up to the length bound, every character string over a 28-character alphabet up to its bound, class-equivalence sequences with extreme numbers and deviation-bounded extensions; accept <=> sentence of the grammar. Known deviations are matched by 'sentence of the grammar plus exactly these named productions', anything else is a violation.",
        "grammar transcription (DESIGN 3.1) and lexical rules from the C03 statement; serde_json decides JSON validity inside literals"),
 "C04":("exhaustive sentence enumeration; public AST compared with a reference precedence parser; implied-parentheses metamorphic oracle on trees and search results","5 C04",
        "For every sentence over 32 token kinds up to the length bound and composed expressions: (1) jmespath::parse tree == reference tree, (2) the implied fully parenthesised form has the same tree and the same search results on 12 documents.",
        "filter binds tighter than wildcard (pinned by compliance case filters 169); a multi-select after '.' may be a unit or start a bracket chain"),
 "C05":("bounded exhaustive input enumeration under catch_unwind + overflow checks + hang watchdog + fatal-signal handler; nesting families in fresh subprocesses on a fixed stack","5 C05",
        "Every character string / token sequence / extreme-number slice up to the bounds is compiled, cloned, searched on 8 documents and dropped; 20 nesting families x a depth ladder run one process each with an 8 MiB stack. Deep-nesting stack exhaustion is a known finding keyed by family and depth.",
        "stack budget 8 MiB for the family ladder; depth thresholds carry one ladder step of slack downwards, never <= 512"),
 "C06":("exhaustive decision table (function x arity x argument type classes) against the reference signature table","5 C06",
        "All 28 names x argument counts 0..declared+2 x 12 type classes per position (as literals, as document fields so that repeated fields are the same node, and as the current node), each cell also behind a null left-hand side and as a hand-built Expression::new value with a foreign label, plus by-function key-type vectors and long typed arrays; error class, or value and declared result type, must match R-fn.",
        "one or two representatives per type class"),
 "C07":("exhaustive enumeration of (length, start, stop, step) over window + i32 extremes against Python's slice rule in i128, cross-validated with python3","5 C07",
        "Every triple over the window +-(n+2) plus the 32-bit extremes and every omission pattern, through the string interface, Variable::slice and the bare hand-built Ast::Slice node; all indexes; non-array subjects; a length ladder of long arrays.",
        "regime-coverage argument for the unbounded range (DESIGN C07)"),
 "C08":("bounded exhaustive enumeration of JSON texts (numeral families, strings in three spellings, documents, duplicate keys) round-tripped through every conversion path","5 C08",
        "Each text goes from_json -> search('@') -> print -> re-parse and through Serialize / TryFrom / Deserialize / to_jmespath; integers exact with integer spelling, <=15 digit decimals bit-exact, others within 2 ulp, strings code point exact; a size ladder of objects (several key orders, one repeated key at several positions: last wins), arrays and strings.",
        "serde_json::from_str::<Value> and str::parse::<f64> as independent readers"),
 "C09":("exhaustive enumeration of delimiter contents and of string values spelled by a reference speller, decoded by the reference lexer","5 C09",
        "Every content up to the bound between each delimiter pair (accept/reject and value), every string value spelled as raw string / JSON literal / quoted identifier in three escape styles, pool documents as literals, short unquoted identifiers; identifiers searched against marker objects with decoys.",
        "R-lex decoder; serde_json for JSON inside literals"),
 "C10":("exhaustive pairwise enumeration over a value pool x 6 operators x 2 presentations; reference deep equality + algebraic laws on the implementation","5 C10",
        "All ordered pairs of the pool: == equals reference deep equality, != its negation, ordering boolean iff both numbers else null, trichotomy, <= iff < or ==, converse and symmetry.",
        "distinct numbers in the pool are well separated"),
 "C11":("exhaustive enumeration of sub-expression pairs x laws x documents; implementation-only compositional oracle (text and tree level)","5 C11",
        "Each compound (pipe, 4 projection kinds, filter, multi-select list/hash, not/and/or) equals the combination of its parts' separately searched results, for all pairs of the bounded expression sets and all pool documents.",
        "spec truthiness applied by the harness"),
 "C12":("exhaustive enumeration of failing strings and failing calls embedded in multi-line / multi-byte contexts; coordinates and rendering recomputed by a reference","5 C12",
        "Every failing string up to the bound over an alphabet with newline, 2/4-byte characters: Parse class, expression text, offset on a boundary, line/column recomputed, Display re-rendered; every failing signature-table cell in 13 contexts: runtime class and offset at the failing call's '('.",
        "R-eval tracks the failing call; non-finite results are a known finding"),
 "C13":("explicit-state BFS (stateright) over operation histories; state = history; invariant replays on fresh real objects (differential vs empty history)","5 C13",
        "All histories of compile/clone/search/drop over 16 expressions x 5 shared documents up to the depth bound: last observation equals the fresh-history observation, shared inputs unchanged; each operation also as first operation of a fresh process.",
        "observations are full Debug renderings"),
 "C15":("explicit-state BFS (stateright) over registry histories against a reference map; exhaustive call-protocol enumeration with recording functions","5 C15",
        "All register/deregister/register_builtins histories over 3 names up to the depth bound answer get_function and 8 probe calls like the reference map; recording custom functions see evaluated arguments in source order; CustomFunction closures (16 parameter types x fixed / variadic / string+variadic shapes x argument vectors up to length 3-4) run iff the signature is satisfied.",
        "R-reg = BTreeMap"),
}
claimed=sys.argv[1:] if len(sys.argv)>1 else sorted(C)
extra=json.load(open('/verif/manifest_extra.json')) if __import__('os').path.exists('/verif/manifest_extra.json') else {}
C.update({k:tuple(v) for k,v in extra.get('checks',{}).items()})
claimed=sorted(set(claimed)|set(extra.get('claimed',[])))
# round-7 additions to the level texts (families added after the seventh mutation round; DESIGN section 5b / 12)
R7={
 "C01":" Since round 7 also: short sentences, E1 and short chains on documents whose containers have 15-257 elements or members, and 4608 predicates two and three productions deep in 11 contexts.",
 "C02":" Since round 7 also: about 700 magnitude thresholds (2^p and 10^k neighbourhoods, integer and float spellings) through the numeric builtins, strings of 7-257 characters with one non-ASCII character at every position, prefix-related strings, already sorted long arrays with displaced keys, every array size 6-70.",
 "C05":" Since round 7 also: re-entrant calls (every call form inside the expression reference of every expref-taking builtin, two levels deep).",
 "C06":" Since round 7 also: on a runtime lacking exactly one builtin, and on one with one custom function more, the name is called in 14 positions including the expression references of map / sort_by / max_by / min_by.",
 "C07":" Since round 7 every (length, start, stop, step) is also taken as a continued projection (field, multi-select hash, pipe into length / index).",
 "C08":" Since round 7 the nesting ladder sends every accepted text through all conversion paths and the same shapes, built in memory up to depth 500, through the paths that take a value.",
 "C10":" Since round 7 also: mixed presentations (literal on one side, document node on the other) and the comparison as a filter predicate, each required to agree with 'l OP r'; the pool includes magnitude thresholds and containers / strings of 15-65 elements differing in one place.",
 "C11":" Since round 7 also: documents with a null before the elements that yield something, medium-size documents, and 4608 predicates two and three productions deep as parts.",
 "C13":" (19 expressions since round 7: a multi-select of constants, two calls of one builtin failing at different argument positions.)",
 "C17":" Since round 7 also: about 165 magnitude thresholds as f64 / &f64 / f32 and inside Values, and a nesting ladder of documents built in memory (15 depths across the JSON reader's limit).",
 "C18":" Since round 7 the quick tier includes expressions whose result is an expression reference.",
}
for k,add in R7.items():
    if k in C:
        t=list(C[k]); t[2]=t[2]+add; C[k]=tuple(t)
checks=[]
for cid in claimed:
    tech,ref,text,note=C[cid]
    checks.append({"property_id":cid,"quick_cmd":"./check %s quick"%cid,"thorough_cmd":"./check %s thorough"%cid,
      "evidence_file":"/verif/evidence/%s.json"%cid,"replay_cmd_template":"./check %s --replay {path}"%cid,
      "engine":"jpv","level_claimed":{"category":"model_checking","text":text,"design_ref":"DESIGN.md section "+ref},
      "level_note":note,"technique":tech})
na=[{"property_id":p["id"],"reason":extra.get('na',{}).get(p["id"],"check under construction in this round (not yet claimed)")} for p in props if p["id"] not in claimed]
hooks=extra.get('hooks',{"guard":"jmespath_rs_verif","enable":"RUSTFLAGS='--cfg jmespath_rs_verif' (scripts/check-C16.sh)","baseline_off_cmd":"cd /repo/jmespath && cargo test --offline --no-fail-fast","source_commits":[],"add_only":True})
m={"version":1,"setup_cmd":"./setup.sh","hooks":hooks,
 "engines":[{"name":"jpv","path":"/verif/harness","serves_properties":claimed,"kind_free_text":"Rust harness: reference lexer/grammar(Earley)/parser/interpreter/builtins + bounded exhaustive sweepers (rayon), stateright BFS over histories, shuttle schedule exploration, subprocess explorers"}],
 "checks":checks,"not_applicable":na,
 "notes":"All checks rebuild /repo's working tree through ./check (cargo build --offline). Known findings: /verif/known_findings.json (read-only at run time). See DESIGN.md."}
json.dump(m,open('/verif/MANIFEST.json','w'),indent=1)
print("claimed",claimed)
