//! The C17 driver as a small stand-alone binary (same sources as the harness,
//! included by path) so that the four feature builds stay cheap.
#![allow(dead_code)]
#[path = "../../harness/src/engine.rs"]
pub mod engine;
#[path = "../../harness/src/enumr.rs"]
pub mod enumr;
#[path = "../../harness/src/gram.rs"]
pub mod gram;
#[path = "../../harness/src/implx.rs"]
pub mod implx;
#[path = "../../harness/src/oracle.rs"]
pub mod oracle;
#[path = "../../harness/src/reval.rs"]
pub mod reval;
#[path = "../../harness/src/rlex.rs"]
pub mod rlex;
#[path = "../../harness/src/rparse.rs"]
pub mod rparse;
#[path = "../../harness/src/checks/c17.rs"]
pub mod c17;

fn main() {
    let args: Vec<String> = std::env::args().collect();
    implx::silence_panics();
    let tier = if args.get(1).map(|s| s.as_str()) == Some("thorough") { engine::Tier::Thorough } else { engine::Tier::Quick };
    std::process::exit(c17::driver(tier, &args[2]));
}
