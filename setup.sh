#!/bin/bash
# Offline build of every harness configuration (run once after a fresh restore).
set -u
ROOT="$(cd "$(dirname "$0")" && pwd)"
export CARGO_NET_OFFLINE=true
mkdir -p "$ROOT/target" "$ROOT/evidence" "$ROOT/replays"
fail=0
b() { # name dir toolchain features rustflags
  ( cd "$ROOT/$2" && RUSTFLAGS="$5" CARGO_TARGET_DIR="$ROOT/target/$1" cargo $3 build --release --offline --features "$4" >"$ROOT/target/setup-$1.log" 2>&1 ) \
    || { echo "setup: configuration $1 failed, see $ROOT/target/setup-$1.log"; tail -n 20 "$ROOT/target/setup-$1.log"; return 1; }
  echo "setup: $1 built"
}
b base harness "" "" "" || fail=1
b hooks harness "" "sched" "--cfg jmespath_rs_verif" & p1=$!
b cli cli-harness "" "" "" & p2=$!
b c17-base c17drv "" "" "" & p3=$!
b c17-sync c17drv "" "sync" "" & p4=$!
wait $p1 || fail=1; wait $p2 || fail=1; wait $p3 || fail=1; wait $p4 || fail=1
b c17-spec c17drv "+nightly" "specialized" "" & p5=$!
b c17-spec-sync c17drv "+nightly" "specialized sync" "" & p6=$!
( cd "$ROOT/obligations" && CARGO_TARGET_DIR="$ROOT/target/obligations" cargo build --offline >"$ROOT/target/setup-obligations.log" 2>&1 ) || fail=1
# C16 leg 2c: the harness against the rewritten copy of the crate (a failure here only disables that leg, with a note)
"$ROOT/scripts/c16-intercept-build.sh" /repo "$ROOT/harness" "$ROOT/target/c16-intercept-src" "$ROOT/target/intercept" >"$ROOT/target/setup-intercept.log" 2>&1 && echo "setup: intercept built" || echo "setup: intercept configuration not built (C16 leg 2c will be skipped with a note), see $ROOT/target/setup-intercept.log"
wait $p5 || fail=1; wait $p6 || fail=1
# the reference model must reproduce the compliance fixtures
"$ROOT/target/base/release/jpv" bind quick || fail=1
exit $fail
