#!/bin/bash
# Offline build of every harness configuration (run once after a fresh restore).
set -eu
ROOT="$(cd "$(dirname "$0")" && pwd)"
cd "$ROOT/harness"
export CARGO_NET_OFFLINE=true
mkdir -p "$ROOT/target" "$ROOT/evidence" "$ROOT/replays"
CARGO_TARGET_DIR="$ROOT/target/base" cargo build --release --offline
