#!/bin/bash
# matrix.sh [ids...] -- run every seeded mutation against its own check and neighbours
declare -A N=( [C01]="C01 C04 C11" [C02]="C02 C10" [C03]="C03 C09 C12" [C04]="C04 C01" [C05]="C05 C07 C12" [C06]="C06 C02 C11 C15" [C07]="C07 C03 C05 C01" [C08]="C08 C14 C09" [C09]="C09 C03 C08" [C10]="C10 C02" [C11]="C11 C01 C04" [C12]="C12 C13" [C13]="C13 C12 C16" [C14]="C14 C08 C17" [C15]="C15 C12" [C16]="C16 C13 C05" [C17]="C17 C14" [C18]="C18" )
ids="${@:-$(ls /verif/seeded)}"
for m in $ids; do
  p=${m%-*}
  echo "== $m"
  /verif/scripts/try_mutation.sh /verif/seeded/$m/patch.diff ${N[$p]} 2>&1 | grep -v WARNING | cut -c1-240
done
