#!/bin/bash
# C18: the unchanged jmespath-cli/src/main.rs, built against /repo/jmespath, vs the library in-process.
set -u
ROOT="$(cd "$(dirname "$0")/.." && pwd)"
export VERIF_ROOT="$ROOT" CARGO_NET_OFFLINE=true
( cd "$ROOT/cli-harness" && CARGO_TARGET_DIR="$ROOT/target/cli" cargo build --release --offline >"$ROOT/target/build-cli.log" 2>&1 ) & p1=$!
( cd "$ROOT/harness" && CARGO_TARGET_DIR="$ROOT/target/base" cargo build --release --offline >"$ROOT/target/build-base.log" 2>&1 ) & p2=$!
wait $p1 || { echo "MACHINERY: jp build failed (see $ROOT/target/build-cli.log)" >&2; tail -n 30 "$ROOT/target/build-cli.log" >&2; exit 2; }
wait $p2 || { echo "MACHINERY: harness build failed (see $ROOT/target/build-base.log)" >&2; tail -n 30 "$ROOT/target/build-base.log" >&2; exit 2; }
export JP_BIN="$ROOT/target/cli/release/jp"
exec "$ROOT/target/base/release/jpv" C18 "$@"
