#!/usr/bin/env python3
"""matrix_table.py <matrix-log>... : read the output of scripts/matrix.sh, record in each seeded/<id>/meta.json
which checks reported the mutation (detected_by) and print the DESIGN.md table rows."""
import json, re, sys, os
res = {}
for path in sys.argv[1:]:
    cur = None
    for line in open(path, errors="replace"):
        m = re.match(r"== (C\d\d-\d+)", line)
        if m:
            cur = m.group(1); res.setdefault(cur, {}); continue
        m = re.match(r"\s+(C\d\d) rc=(\d+) violations_lines=(\d+)", line)
        if m and cur:
            res[cur][m.group(1)] = (int(m.group(2)), int(m.group(3)))
for mid in sorted(res, key=lambda s: (s[:3], int(s[4:]))):
    mp = f"/verif/seeded/{mid}/meta.json"
    if not os.path.exists(mp):
        continue
    meta = json.load(open(mp))
    own = mid[:3]
    hit = [c for c, (rc, nv) in res[mid].items() if rc == 1 and nv > 0]
    hit.sort(key=lambda c: (c != own, c))
    bad = [c for c, (rc, nv) in res[mid].items() if rc not in (0, 1)]
    meta["detected_by"] = ", ".join(hit) if hit else "NOT DETECTED"
    json.dump(meta, open(mp, "w"), indent=1)
    note = f" (machinery exit on {','.join(bad)})" if bad else ""
    esc = lambda t: t.replace("|", "\\|")
    print(f"| {mid} | {esc(meta['change'])} | {esc(meta['needs_to_manifest'])} | {meta['detected_by']}{note} |")
