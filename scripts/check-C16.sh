#!/bin/bash
# C16: (1) compile-time Send/Sync obligations + forbid(unsafe_code) under --features sync,
#      (2) schedule exploration (shuttle, pre-emption bounded DFS) on the hooks-on build.
set -u
ROOT="$(cd "$(dirname "$0")/.." && pwd)"
export VERIF_ROOT="$ROOT" CARGO_NET_OFFLINE=true
MODE="${1:-quick}"
mkdir -p "$ROOT/target" "$ROOT/replays"
LOGO="$ROOT/target/build-obligations.log"; LOGU="$ROOT/target/build-forbid-unsafe.log"; LOGL="$ROOT/target/build-sync-lib.log"; LOGH="$ROOT/target/build-hooks.log"
( cd "$ROOT/harness" && RUSTFLAGS="--cfg jmespath_rs_verif" CARGO_TARGET_DIR="$ROOT/target/hooks" cargo build --release --offline --features sched >"$LOGH" 2>&1 ) & ph=$!
# leg 2c: the harness against a copy of the crate whose std::sync / std::thread / thread_local! resolve to shuttle's types
LOGI="$ROOT/target/build-intercept.log"
( "$ROOT/scripts/c16-intercept-build.sh" /repo "$ROOT/harness" "$ROOT/target/c16-intercept-src" "$ROOT/target/intercept" >"$LOGI.out" 2>"$LOGI" ) & pi=$!
# does the library itself build with the feature?
( cd /repo/jmespath && CARGO_TARGET_DIR="$ROOT/target/sync-lib" cargo build --lib --features sync --offline >"$LOGL" 2>&1 ) & pl=$!
wait $pl; rl=$?
if [ $rl -ne 0 ]; then wait $ph; wait $pi; echo "MACHINERY: /repo/jmespath does not build with --features sync (see $LOGL)" >&2; tail -n 20 "$LOGL" >&2; exit 2; fi
( cd "$ROOT/obligations" && CARGO_TARGET_DIR="$ROOT/target/obligations" cargo build --offline >"$LOGO" 2>&1 ); ro=$?
( cd /repo/jmespath && CARGO_TARGET_DIR="$ROOT/target/forbid-unsafe" cargo rustc --lib --features sync --offline -- -F unsafe_code >"$LOGU" 2>&1 ); ru=$?
NOBL=$(grep -c 'Send' "$ROOT/obligations/src/lib.rs" | head -1)
NOBL=$(sed -n '/pub const OBLIGATIONS/,/^];/p' "$ROOT/obligations/src/lib.rs" | grep -c '^    "')
if [ $ro -ne 0 ] || [ $ru -ne 0 ]; then
  wait $ph; wait $pi
  # the library builds, an obligation does not: that is a verdict
  f="$ROOT/replays/C16-obligations.json"
  { echo '{"property":"C16","check":"type-level-obligations","key":"C16/obligation-not-discharged","case":{"kind":"obligations"},'
    echo -n '"actual":'; (grep -E "^error" -A12 "$LOGO" "$LOGU" | head -40) | python3 -c 'import json,sys; print(json.dumps(sys.stdin.read()))'; echo '}'; } > "$f"
  grep -E "^error" -A6 "$LOGO" "$LOGU" | head -30
  echo "VIOLATION property=C16 replay=$f  key=C16/obligation-not-discharged (Send/Sync obligation or forbid(unsafe_code) failed while the library builds)"
  python3 - "$ROOT" "$MODE" "$NOBL" <<'PY'
import json,sys,time
root,mode,n=sys.argv[1],sys.argv[2],int(sys.argv[3])
ev={"property_id":"C16","tier":mode,"seed":0,"level":"model_checking","coverage":{"evaluations":n+1,"distinct_nontrivial":n+1,"rule":"compile-time obligations; at least one was not discharged, schedule exploration skipped","samples":["see replay file"],"exhaustive":False},"wall_s":0.0,"violations":1}
json.dump(ev,open(root+"/evidence/C16.json","w"),indent=1)
PY
  exit 1
fi
wait $ph || { echo "MACHINERY: hooks-on harness build failed (see $LOGH)" >&2; tail -n 30 "$LOGH" >&2; exit 2; }
if wait $pi; then
  export JPV_INTERCEPT_BIN="$(tail -n 1 "$LOGI.out")"
else
  # the rewritten copy does not build (e.g. a std primitive shuttle has no counterpart for): the leg is skipped and
  # said so in the evidence; that is not a verdict about the property
  export JPV_INTERCEPT_NOTE="the rewritten copy of the crate did not build: $(grep -m1 -E '^(error|intercept:)' "$LOGI" | cut -c1-200)"
  unset JPV_INTERCEPT_BIN
fi
if [ "$MODE" = "--replay" ]; then exec "$ROOT/target/hooks/release/jpv" C16 --replay "$2"; fi
exec "$ROOT/target/hooks/release/jpv" C16 "$MODE" $((NOBL + 1))
