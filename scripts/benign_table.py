#!/usr/bin/env python3
"""benign_table.py <results files...>: one DESIGN.md table row per negative control."""
import re, sys, os
runs = {}
for path in sys.argv[1:]:
    cur = None
    for line in open(path, errors="replace"):
        m = re.match(r"== (C\d\d-b\d)", line)
        if m:
            cur = m.group(1); runs.setdefault(cur, {}); continue
        m = re.match(r"\s+(C\d\d) rc=(\d+) violations_lines=(\d+)", line)
        if m and cur:
            c, rc, nv = m.group(1), int(m.group(2)), int(m.group(3))
            old = runs[cur].get(c)
            runs[cur][c] = (max(rc, old[0]) if old else rc, max(nv, old[1]) if old else nv)
for d in sorted(os.listdir("/verif/benign")):
    if not re.match(r"C\d\d-b\d$", d):
        continue
    readme = open(f"/verif/benign/{d}/README.md").read().splitlines()
    title = next((l for l in readme if l.strip()), "")
    title = re.sub(r"^#+\s*", "", title)
    title = title.replace("|", "\\|")
    title = re.sub(r"^(C\d\d )?[Bb]enign change \d+\s*(\(C\d\d\))?\s*[:—–-]+\s*", "", title)
    files = sorted(set(re.findall(r"^diff --git a/\S+/(\S+?) b/", open(f"/verif/benign/{d}/patch.diff").read(), re.M)))
    r = runs.get(d, {})
    checks = " ".join(sorted(r))
    alarms = [c for c, (rc, nv) in r.items() if rc != 0 or nv]
    verdict = "no alarm" if not alarms else "ALARM: " + ", ".join(alarms)
    print(f"| {d} | {', '.join(files)} | {title} | {checks} | {verdict} |")
