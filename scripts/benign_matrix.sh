#!/bin/bash
# benign_matrix.sh [ids...] -- negative controls: apply each behaviour-preserving patch of /verif/benign to /repo,
# run the quick checks selected by the property it was written against and by the files it touches, revert.
# Every line must say rc=0 violations_lines=0.
declare -A N=( [C01]="C01 C04 C11" [C02]="C02 C10" [C03]="C03 C09 C12" [C04]="C04 C01" [C05]="C05 C07 C12" [C06]="C06 C02 C11 C15" [C07]="C07 C03 C05 C01" [C08]="C08 C14 C09" [C09]="C09 C03 C08" [C10]="C10 C02" [C11]="C11 C01 C04" [C12]="C12 C13" [C13]="C13 C12 C16" [C14]="C14 C08" [C15]="C15 C12" [C16]="C16 C13 C05" [C17]="C17 C14" [C18]="C18" )
declare -A F=( [lexer.rs]="C03 C09 C12 C01" [parser.rs]="C03 C04 C01 C12 C11" [interpreter.rs]="C01 C11 C07 C13 C15 C16 C05" [functions.rs]="C02 C06 C15 C01 C12" [variable.rs]="C01 C02 C07 C08 C10 C14 C17" [errors.rs]="C12 C18 C05" [runtime.rs]="C13 C16 C06" [lib.rs]="C13 C16 C06 C12" [ast.rs]="C04 C01" [main.rs]="C18" )
ids="${@:-$(ls /verif/benign | grep '^C')}"
for m in $ids; do
  p=${m%-*}
  sel="${N[$p]}"
  for f in $(grep '^diff --git' /verif/benign/$m/patch.diff | sed -E 's|.* b/.*/([^/]+)$|\1|'); do sel="$sel ${F[$f]:-}"; done
  [ -n "${ALL:-}" ] && sel="C01 C02 C03 C04 C05 C06 C07 C08 C09 C10 C11 C12 C13 C14 C15 C16 C17 C18"
  sel=$(echo $sel | tr ' ' '\n' | sort -u | tr '\n' ' ')
  echo "== $m [$sel]"
  /verif/scripts/try_mutation.sh /verif/benign/$m/patch.diff $sel 2>&1 | grep -v WARNING | cut -c1-300
done
