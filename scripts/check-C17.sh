#!/bin/bash
# C17: one driver under four feature sets; outputs must be identical and equal the reference.
set -u
ROOT="$(cd "$(dirname "$0")/.." && pwd)"
export VERIF_ROOT="$ROOT" CARGO_NET_OFFLINE=true
MODE="${1:-quick}"
REPLAY=""
if [ "$MODE" = "--replay" ]; then REPLAY="$2"; MODE=quick; fi
OUT="$ROOT/target/c17"; mkdir -p "$OUT"
build() { # cfg toolchain features
  local log="$ROOT/target/build-c17-$1.log"
  if ! ( cd "$ROOT/c17drv" && CARGO_TARGET_DIR="$ROOT/target/c17-$1" cargo $2 build --release --offline --features "$3" >"$log" 2>&1 ); then
    echo "MACHINERY: build of configuration '$1' failed (see $log)" >&2; tail -n 30 "$log" >&2; return 2
  fi
}
# the four builds are independent: run them in parallel
( cd "$ROOT/harness" && CARGO_TARGET_DIR="$ROOT/target/base" cargo build --release --offline >"$ROOT/target/build-base.log" 2>&1 ) & p0=$!
build base "" "" & p1=$!
build sync "" "sync" & p2=$!
build spec "+nightly" "specialized" & p3=$!
build spec-sync "+nightly" "specialized sync" & p4=$!
fail=0; for p in $p1 $p2 $p3 $p4; do wait $p || fail=1; done
wait $p0 || { echo "MACHINERY: harness build failed (see $ROOT/target/build-base.log)" >&2; tail -n 30 "$ROOT/target/build-base.log" >&2; exit 2; }
if [ $fail -ne 0 ]; then
  # the library failing to build under a feature set is itself a C17 verdict only if base builds
  if [ -x "$ROOT/target/base/release/jpv" ] && ( cd /repo/jmespath && CARGO_TARGET_DIR="$ROOT/target/repo-plain" cargo build --offline >/dev/null 2>&1 ); then
    echo "VIOLATION property=C17 replay=$ROOT/target/build-c17-*.log  key=C17/feature-set-does-not-build"
    exit 1
  fi
  exit 2
fi
for c in base sync spec spec-sync; do
  "$ROOT/target/c17-$c/release/c17drv" "$MODE" "$OUT/$c.txt" >/dev/null || { echo "MACHINERY: driver $c failed" >&2; exit 2; }
done
if [ -n "$REPLAY" ]; then
  C17_OUT="$OUT" "$ROOT/target/base/release/jpv" C17 --replay "$REPLAY"; rc=$?
else
  "$ROOT/target/base/release/jpv" C17-compare "$MODE" "$OUT"; rc=$?
fi
rm -f "$OUT"/*.txt
exit $rc
