#!/bin/bash
# c16-intercept-build.sh <repo-root> <harness-dir> <work-dir> <cargo-target-dir>
#
# Builds the C16 harness against a *rewritten copy* of <repo-root>/jmespath in which the crate's uses of
# std::sync / std::thread / thread_local! resolve to shuttle's scheduler-aware types (the usual `cfg(loom)`-style
# switch, done on a copy so that /repo stays untouched).  With that build every lock, atomic and Once operation
# inside the crate is a scheduling point for the explorer, and thread-local storage / thread ids are per explored
# thread.  Prints the path of the built binary on success; exits 3 (and says why on stderr) when the rewritten
# copy does not build -- that is reported by the caller as "leg not available", never as a verdict.
set -u
REPO="$1"; HARNESS="$2"; FINAL="$3"; TARGET="$4"
# generate into a staging directory, then bring the persistent copy up to date by content: files that did not
# change keep their timestamps, so cargo rebuilds only what /repo's working tree actually changed
WORK="$FINAL.stage"
rm -rf "$WORK"; mkdir -p "$WORK" "$FINAL"
cp -r "$REPO/jmespath" "$WORK/jmespath" || exit 3
rm -rf "$WORK/jmespath/target"
rsync -a --exclude target "$HARNESS/" "$WORK/harness/" || exit 3
python3 - "$WORK" <<'PY' || exit 3
import re, sys, os, glob
work = sys.argv[1]
src = os.path.join(work, "jmespath", "src")
n = 0
for path in glob.glob(os.path.join(src, "**", "*.rs"), recursive=True):
    s = open(path).read()
    t = s
    t = re.sub(r"(?<![A-Za-z0-9_])(::)?std::sync::", "crate::verif_sync::", t)
    t = re.sub(r"(?<![A-Za-z0-9_])(::)?std::thread::", "crate::verif_thread::", t)
    t = re.sub(r"(?<![A-Za-z0-9_:])(?:(::)?std::)?thread_local!", "shuttle::thread_local!", t)
    # brace imports: use std::{sync::.., thread, ..} are left alone (rare); reported below
    if re.search(r"use\s+std::\{[^}]*\b(sync|thread)\b", t):
        sys.stderr.write("intercept: %s imports sync/thread through a brace group of std; not rewritten\n" % path)
        sys.exit(3)
    if t != s:
        n += 1
        open(path, "w").write(t)
lib = os.path.join(src, "lib.rs")
s = open(lib).read()
shim = '''
#[doc(hidden)]
pub mod verif_sync {
    pub use shuttle::sync::*;
    pub use std::sync::{LazyLock, OnceLock};
}
#[doc(hidden)]
pub mod verif_thread {
    pub use shuttle::thread::*;
}
'''
# after the inner attributes / doc comments at the top of lib.rs: put the shim at the end of the file
open(lib, "w").write(s + shim)
cargo = os.path.join(work, "jmespath", "Cargo.toml")
c = open(cargo).read()
c = re.sub(r"(?m)^\[dependencies\]\s*$", '[dependencies]\nshuttle = "0.9"', c, count=1)
if "[workspace]" not in c:
    c += "\n[workspace]\n"
open(cargo, "w").write(c)
h = os.path.join(work, "harness", "Cargo.toml")
c = open(h).read()
c2 = re.sub(r'jmespath\s*=\s*\{\s*path\s*=\s*"[^"]*"', 'jmespath = { path = "%s"' % os.path.join(work, "jmespath"), c)
if c2 == c:
    sys.stderr.write("intercept: harness Cargo.toml has no jmespath path dependency\n"); sys.exit(3)
open(h, "w").write(c2)
sys.stderr.write("intercept: %d source files rewritten\n" % n)
PY
# paths inside the generated manifests must name the persistent directory
sed -i "s#$WORK/#$FINAL/#g" "$WORK/harness/Cargo.toml"
rsync -rlpD --checksum --delete --exclude build.log "$WORK/" "$FINAL/" || exit 3
rm -rf "$WORK"
WORK="$FINAL"
( cd "$WORK/harness" && RUSTFLAGS="--cfg jmespath_rs_verif" CARGO_NET_OFFLINE=true CARGO_TARGET_DIR="$TARGET" \
    cargo build --release --offline --features sched >"$WORK/build.log" 2>&1 ) || { grep -E "^error" -A7 "$WORK/build.log" | head -30 >&2; exit 3; }
echo "$TARGET/release/jpv"
