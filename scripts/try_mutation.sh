#!/bin/bash
# try_mutation.sh <patch.diff> <check ids...>  -- apply to /repo, run the quick checks, revert.
set -u
P="$1"; shift
cd /repo && git status --short | grep -q . && { echo "/repo not clean"; exit 2; }
git apply "$P" || { echo "patch does not apply to /repo"; exit 2; }
trap 'git -C /repo checkout -q -- .' EXIT
for c in "$@"; do
  out=$(/verif/check $c ${TIER:-quick} 2>&1); rc=$?
  nv=$(echo "$out" | grep -c "^VIOLATION")
  first=$(echo "$out" | grep "^VIOLATION" | head -1 | cut -c1-260)
  echo "  $c rc=$rc violations_lines=$nv $first"
done
