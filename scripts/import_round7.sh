#!/bin/bash
# import_round7.sh <PID>  -- copy /tmp/m7-<PID>/mutation/{1,2,3} to /verif/seeded/<PID>-<next>, confirm each
set -u
P="$1"
last=$(ls -d /verif/seeded/$P-* | sed "s/.*$P-//" | sort -n | tail -1)
for k in 1 2 3; do
  src=/tmp/m7-$P/mutation/$k
  [ -f "$src/patch.diff" ] || continue
  last=$((last+1)); dst=/verif/seeded/$P-$last
  mkdir -p "$dst"; cp "$src"/patch.diff "$dst"/; cp "$src"/README.md "$dst"/ 2>/dev/null
  for f in demo.rs demo.sh; do [ -f "$src/$f" ] && cp "$src/$f" "$dst/"; done
  # other helper files
  for f in "$src"/*; do b=$(basename "$f"); case "$b" in patch.diff|README.md|demo.rs|demo.sh) ;; *) [ -f "$f" ] && [ $(stat -c %s "$f") -lt 200000 ] && cp "$f" "$dst/";; esac; done
  echo "imported $src -> $dst"
done
