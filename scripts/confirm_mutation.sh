#!/bin/bash
# confirm_mutation.sh <mutation-dir>  -- in a scratch worktree: suite passes with the patch,
# demo fails with the patch, demo passes without it.  Prints one summary line.
set -u
M="$1"; WT=/tmp/confirm-wt
[ -d "$WT" ] || { git -C /repo worktree add -q "$WT" HEAD; cp /repo/jmespath/Cargo.lock "$WT/jmespath/Cargo.lock"; }
cd "$WT" && git checkout -q -- . && git clean -fdq jmespath/tests jmespath/src >/dev/null 2>&1
export CARGO_TARGET_DIR=/tmp/confirm-wt/target
run_demo() {
  if [ -f "$M/demo.sh" ]; then (cd "$WT" && WT="$WT" timeout 900 bash "$M/demo.sh" "$WT" >/tmp/confirm-demo.log 2>&1); return $?
  elif [ -f "$M/demo.rs" ]; then cp "$M/demo.rs" "$WT/jmespath/tests/demo.rs"; (cd "$WT/jmespath" && timeout 600 cargo test --offline ${DEMO_FEATURES:-} --test demo >/tmp/confirm-demo.log 2>&1); rc=$?; rm -f "$WT/jmespath/tests/demo.rs"; return $rc
  else return 99; fi
}
run_demo; clean_rc=$?
if ! git apply "$M/patch.diff" 2>/tmp/confirm-apply.log; then echo "$M: PATCH DOES NOT APPLY"; exit 1; fi
(cd jmespath && timeout 900 cargo test --offline >/tmp/confirm-suite.log 2>&1); suite_rc=$?
passed=$(grep -E "^test result: ok" /tmp/confirm-suite.log | awk '{s+=$4} END{print s+0}')
run_demo; mut_rc=$?
git checkout -q -- .
echo "$M: suite_rc=$suite_rc passed=$passed demo_on_clean_rc=$clean_rc demo_with_patch_rc=$mut_rc"
